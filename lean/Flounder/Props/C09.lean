/-
  C09 — Repetition: a position whose hash already stands twice on the repetition stack is scored as a draw
  (before the table is probed), and the `position` command records the game history on that stack.

  All statements are about HASHES (no injectivity assumption on the Zobrist keys; they hold for every key
  table).  Remark: if `hash k` is injective on the set of boards visited, "the hash of `q` occurs `n` times
  among the recorded hashes" is the same as "the board `q` occurred `n` times among the recorded boards"
  (`count_map_of_injOn` below).
-/
import Flounder.Lemmas.UciPosition
import Flounder.Lemmas.SearchRep
import Flounder.Lemmas.FenInv

namespace Flounder.Props.C09
open Flounder Gen Flounder.Engine Flounder.Lemmas.UciPosition Flounder.Lemmas.SearchRep Flounder.Lemmas.FenInv

/-! ### the repetition test -/

/-- **`is_repetition` = "at least two occurrences on the stack"**, for every stack. -/
theorem repetition_detects (s : SearchState) (h : UInt64) :
    s.isRepetition h = true ↔ 2 ≤ (s.rep.filter (· == h)).length := by
  simp [SearchState.isRepetition]

theorem repetition_detects_count (s : SearchState) (h : UInt64) :
    s.isRepetition h = true ↔ 2 ≤ s.rep.count h := by
  rw [repetition_detects, List.count, List.countP_eq_length_filter]

theorem not_repetition_iff (s : SearchState) (h : UInt64) :
    s.isRepetition h = false ↔ s.rep.count h < 2 := by
  rw [← Bool.not_eq_true, repetition_detects_count]; omega

/-- the test only reads the `rep` field. -/
theorem isRepetition_congr (s s' : SearchState) (h : UInt64) (hr : s.rep = s'.rep) :
    s.isRepetition h = s'.isRepetition h := by
  simp [SearchState.isRepetition, hr]

/-- with hashing injective on the boards concerned, counting hashes is counting boards. -/
theorem count_map_of_inj (k : ZKeys) (past : List Board) (q : Board)
    (hinj : ∀ b ∈ past, hash k b = hash k q → b = q) :
    (past.map (hash k)).count (hash k q) = (past.filter (fun b => decide (b = q))).length := by
  induction past with
  | nil => rfl
  | cons b rest ih =>
    have ih' := ih (fun c hc => hinj c (List.mem_cons_of_mem _ hc))
    by_cases hb : b = q
    · subst hb; simp [ih']
    · have : hash k b ≠ hash k q := fun h => hb (hinj b List.mem_cons_self h)
      simp [ih', hb, this]

/-! ### the head of `negamax` -/

section generic
variable {P : Type} (G : Game P)

/-- everything `negamax` does after the repetition test (verbatim the `else` branch of the model), as a
    function of the state after `increment_nodes`. -/
def negamaxBody (qfuel : Nat) (depth : Nat) (p : P) (ply : Nat) (alpha beta : Int) (s : SearchState) :
    Option SearchResult × SearchState :=
  match probeTT G s p depth alpha beta with
  | (some cached, _, s) => (some cached, s)
  | (none, ttMove, s) =>
    match depth with
    | 0 =>
      match quiesce G qfuel p alpha beta s with
      | (none, s) => (none, s)
      | (some v, s) => (some ⟨v, none⟩, s)
    | d + 1 =>
      let moves := G.moves p
      match moves with
      | [] =>
        if G.inCheck p then (some ⟨-CHECKMATE_SCORE + ((d + 1 : Nat) : Int), none⟩, s)
        else (some ⟨0, none⟩, s)
      | m0 :: _ =>
        let ordered := orderMoves G s p moves ttMove ply
        let first := ordered.headD m0
        match negamaxLoop G (negamax G qfuel d) p (d + 1) ply beta ordered
                ⟨alpha, ⟨NEGATIVE_INFINITY, some first⟩⟩ s with
        | (none, s) => (none, s)
        | (some acc, s) =>
          let (stop, s) := s.shouldStop
          if stop then (some acc.best, s)
          else
            let bound := determineBound acc.best.score alpha beta
            let s := { s with tt := s.tt.store (G.hash p) acc.best.score acc.best.bestMove (d + 1) bound }
            (some acc.best, s)

/-- `negamax` = count the node; repetition test (only below the root); then everything else. -/
theorem negamax_eq (qfuel d : Nat) (p : P) (ply : Nat) (alpha beta : Int) (s : SearchState) :
    negamax G qfuel d p ply alpha beta s =
      if (decide (ply > 0) && s.incrementNodes.isRepetition (G.hash p)) = true then
        (some ⟨0, none⟩, s.incrementNodes)
      else negamaxBody G qfuel d p ply alpha beta s.incrementNodes := by
  cases d <;> (unfold negamax; rfl)

/-- **a repeated position is scored as a draw before any table probe**: below the root, if the hash already
    stands twice on the stack, the result is score 0 with no move, the only effect is the node count —
    whatever the depth, the window and the transposition table contain. -/
theorem draw_scored_zero (qfuel d : Nat) (p : P) (ply : Nat) (alpha beta : Int) (s : SearchState)
    (hply : ply > 0) (h : s.incrementNodes.isRepetition (G.hash p) = true) :
    negamax G qfuel d p ply alpha beta s = (some ⟨0, none⟩, s.incrementNodes) := by
  rw [negamax_eq]; simp [hply, h]

/-- the same with the hypothesis spelled out as a count on the incoming stack. -/
theorem draw_scored_zero_count (qfuel d : Nat) (p : P) (ply : Nat) (alpha beta : Int) (s : SearchState)
    (hply : ply > 0) (h : 2 ≤ s.rep.count (G.hash p)) :
    negamax G qfuel d p ply alpha beta s = (some ⟨0, none⟩, s.incrementNodes) :=
  draw_scored_zero G qfuel d p ply alpha beta s hply
    ((repetition_detects_count s.incrementNodes (G.hash p)).2 h)

/-- in particular the transposition table is not consulted and not changed, and the stack is untouched. -/
theorem draw_ignores_table (qfuel d : Nat) (p : P) (ply : Nat) (alpha beta : Int) (s : SearchState) (tt : TT)
    (hply : ply > 0) (h : 2 ≤ s.rep.count (G.hash p)) :
    (negamax G qfuel d p ply alpha beta { s with tt := tt }).1 = some ⟨0, none⟩ ∧
    (negamax G qfuel d p ply alpha beta { s with tt := tt }).2.tt = tt := by
  rw [draw_scored_zero_count G qfuel d p ply alpha beta { s with tt := tt } hply h]
  exact ⟨rfl, rfl⟩

/-- **the root is never treated as a repetition** (ply 0): the repetition stack is not looked at. -/
theorem root_not_repetition (qfuel d : Nat) (p : P) (alpha beta : Int) (s : SearchState) :
    negamax G qfuel d p 0 alpha beta s = negamaxBody G qfuel d p 0 alpha beta s.incrementNodes := by
  rw [negamax_eq]; simp

/-- below the root, fewer than two occurrences ⇒ not treated as a repetition: the ordinary search runs. -/
theorem no_draw_below_two (qfuel d : Nat) (p : P) (ply : Nat) (alpha beta : Int) (s : SearchState)
    (h : s.rep.count (G.hash p) < 2) :
    negamax G qfuel d p ply alpha beta s = negamaxBody G qfuel d p ply alpha beta s.incrementNodes := by
  have : s.incrementNodes.isRepetition (G.hash p) = false := (not_repetition_iff _ _).2 h
  rw [negamax_eq]; simp [this]

/-- `search_position`: the root hash is pushed, the root searched at ply 0 with the full window, the stack
    restored — and the search itself never changes the stack (`negamax_rep`). -/
theorem searchPosition_eq (qfuel : Nat) (p : P) (depth : Nat) (s : SearchState) :
    searchPosition G qfuel p depth s =
      ((negamax G qfuel depth p 0 NEGATIVE_INFINITY INFINITY { s with rep := G.hash p :: s.rep }).1,
       { (negamax G qfuel depth p 0 NEGATIVE_INFINITY INFINITY { s with rep := G.hash p :: s.rep }).2 with
          rep := s.rep }) := by
  unfold searchPosition
  have h := negamax_rep G qfuel depth p 0 NEGATIVE_INFINITY INFINITY { s with rep := G.hash p :: s.rep }
  simp only [h, List.drop_one, List.tail_cons]

theorem searchPosition_rep (qfuel : Nat) (p : P) (depth : Nat) (s : SearchState) :
    (searchPosition G qfuel p depth s).2.rep = s.rep := by
  rw [searchPosition_eq]

/-- the move loop only needs to know its recursive call on states carrying the current stack. -/
theorem negamaxLoop_congr (rec rec' : P → Nat → Int → Int → SearchState → Option SearchResult × SearchState)
    (R : List UInt64) (hrec : ∀ p ply a b s, (rec p ply a b s).2.rep = s.rep)
    (heq : ∀ p ply a b s, s.rep = R → rec p ply a b s = rec' p ply a b s)
    (p : P) (depth ply : Nat) (beta : Int) (ms : List Move) (acc : LoopAcc) (s : SearchState) (hs : s.rep = R) :
    negamaxLoop G rec p depth ply beta ms acc s = negamaxLoop G rec' p depth ply beta ms acc s := by
  induction ms generalizing acc s with
  | nil => rfl
  | cons mv rest ih =>
    simp only [negamaxLoop]
    have h1 : s.shouldStop.2.rep = R := hs
    rw [← heq (G.play p mv) (ply + 1) (-beta) (-acc.alpha) s.shouldStop.2 h1]
    have h2 := hrec (G.play p mv) (ply + 1) (-beta) (-acc.alpha) s.shouldStop.2
    split
    · rfl
    · split
      · rfl
      · next r s' heq' =>
        rw [heq'] at h2
        split
        · rfl
        · exact ih _ s' (h2.trans h1)

/-- **inside the search**: in the move loop of any node working on stack `R` (at the root of
    `searchPosition`: the root hash pushed on the recorded history), every child position whose hash stands
    at least twice on `R` is scored 0 without being searched; the other children are searched normally. -/
theorem children_on_stack_draw (qfuel d : Nat) (R : List UInt64) (p : P) (depth ply : Nat) (beta : Int)
    (ms : List Move) (acc : LoopAcc) (s : SearchState) (hs : s.rep = R) :
    negamaxLoop G (negamax G qfuel d) p depth ply beta ms acc s =
      negamaxLoop G (fun q ply' a b s' =>
          if 2 ≤ R.count (G.hash q) ∧ ply' > 0 then (some ⟨0, none⟩, s'.incrementNodes)
          else negamax G qfuel d q ply' a b s') p depth ply beta ms acc s := by
  apply negamaxLoop_congr G _ _ R (fun p ply a b s => negamax_rep G qfuel d p ply a b s) _ _ _ _ _ _ _ _ hs
  intro q ply' a b s' hs'
  by_cases h : 2 ≤ R.count (G.hash q) ∧ ply' > 0
  · rw [if_pos h, draw_scored_zero_count G qfuel d q ply' a b s' h.2 (hs' ▸ h.1)]
  · rw [if_neg h]


end generic

/-! ### the `position` command records the history -/

/-- **`position … moves …` records the game history.** If the command has a base board (`startpos`, a
    FEN that parses, or the default board after a FEN error) and every move token resolves, then afterwards
    the board is the one reached by replaying the moves and the repetition stack is EXACTLY the hashes
    (under the current key table) of the boards left behind, most recent first: whatever was on the stack
    before is gone. -/
theorem position_records_history (ctx : EngineCtx) (e : Engine) (parts ts : List Tok) (out : List (List Char))
    (base fin : Board) (past : List Board)
    (hb : positionBase parts = some (out, base)) (hm : movesAfter parts = some ts)
    (hr : replay ctx.mg ts base = some (past, fin)) :
    handlePosition ctx e parts =
      (out, { e with board := fin,
                     search := { e.search with rep := (past.map (hash (ctx.keys e.newGames))).reverse } }, .running) := by
  rw [handlePosition_of_base ctx e parts out base hb]
  simp only [positionResult, hm, hr]

/-- the same through `historyOf`. -/
theorem position_records_historyOf (ctx : EngineCtx) (e : Engine) (parts ts : List Tok) (out : List (List Char))
    (base : Board) (hs : List UInt64)
    (hb : positionBase parts = some (out, base)) (hm : movesAfter parts = some ts)
    (hh : historyOf ctx.mg (ctx.keys e.newGames) ts base = some hs) :
    (handlePosition ctx e parts).2.2 = .running ∧ (handlePosition ctx e parts).2.1.search.rep = hs := by
  unfold historyOf at hh
  cases hr : replay ctx.mg ts base with
  | none => rw [hr] at hh; cases hh
  | some r =>
    obtain ⟨past, fin⟩ := r
    rw [hr] at hh; simp only [Option.map_some, Option.some.injEq] at hh
    rw [position_records_history ctx e parts ts out base fin past hb hm hr]
    exact ⟨rfl, hh⟩

/-- without a `moves` part the stack is empty afterwards. -/
theorem position_without_moves_clears (ctx : EngineCtx) (e : Engine) (parts : List Tok) (out : List (List Char))
    (base : Board) (hb : positionBase parts = some (out, base)) (hm : movesAfter parts = none) :
    handlePosition ctx e parts =
      (out, { e with board := base, search := { e.search with rep := [] } }, .running) := by
  rw [handlePosition_of_base ctx e parts out base hb]
  simp only [positionResult, hm]

/-- and a token that does not resolve is the engine's `unwrap()` panic; nothing is half-recorded. -/
theorem position_unresolved_panics (ctx : EngineCtx) (e : Engine) (parts ts : List Tok) (out : List (List Char))
    (base : Board) (hb : positionBase parts = some (out, base)) (hm : movesAfter parts = some ts)
    (hr : replay ctx.mg ts base = none) :
    handlePosition ctx e parts = (out, e, .panicked) := by
  rw [handlePosition_of_base ctx e parts out base hb]
  simp only [positionResult, hm, hr]

/-- **only the last `position` command counts**: the stack (and the board) after a `position` command that
    has a base board depend on the command and the current key table only — not on the previous stack,
    board, tables or counters. -/
theorem only_last_position_counts (ctx : EngineCtx) (e₁ e₂ : Engine) (parts : List Tok)
    (out : List (List Char)) (base : Board) (hb : positionBase parts = some (out, base))
    (hk : ctx.keys e₁.newGames = ctx.keys e₂.newGames)
    (hrun : (handlePosition ctx e₁ parts).2.2 = .running) :
    (handlePosition ctx e₂ parts).2.2 = .running ∧
    (handlePosition ctx e₁ parts).2.1.search.rep = (handlePosition ctx e₂ parts).2.1.search.rep ∧
    (handlePosition ctx e₁ parts).2.1.board = (handlePosition ctx e₂ parts).2.1.board ∧
    (handlePosition ctx e₁ parts).1 = (handlePosition ctx e₂ parts).1 := by
  rw [handlePosition_of_base ctx e₁ parts out base hb] at hrun ⊢
  rw [handlePosition_of_base ctx e₂ parts out base hb]
  unfold positionResult at hrun ⊢
  cases hm : movesAfter parts with
  | none => simp
  | some ts =>
    simp only [hm] at hrun ⊢
    cases hr : replay ctx.mg ts base with
    | none => rw [hr] at hrun; cases hrun
    | some r => simp [hk]

/-- the stack after such a command does not depend on `e.search.rep`. -/
theorem position_ignores_old_stack (ctx : EngineCtx) (e : Engine) (old : List UInt64) (parts : List Tok)
    (out : List (List Char)) (base : Board) (hb : positionBase parts = some (out, base))
    (hrun : (handlePosition ctx e parts).2.2 = .running) :
    (handlePosition ctx { e with search := { e.search with rep := old } } parts).2.1.search.rep
      = (handlePosition ctx e parts).2.1.search.rep :=
  ((only_last_position_counts ctx e { e with search := { e.search with rep := old } } parts out base hb rfl hrun).2.1).symm

/-! ### concrete command shapes -/

theorem positionBase_startpos (rest : List Tok) :
    positionBase (kwPosition :: kwStartpos :: rest) = some ([], Board.startpos) := by
  simp [positionBase]

theorem movesAfter_startpos_moves (ts : List Tok) :
    movesAfter (kwPosition :: kwStartpos :: kwMoves :: ts) = some ts := by
  have h1 : kwPosition ≠ kwMoves := by decide
  have h2 : kwStartpos ≠ kwMoves := by decide
  simp [movesAfter, List.dropWhile, h1, h2]

/-- `position startpos moves m₁ … mₙ`. -/
theorem position_startpos_records (ctx : EngineCtx) (e : Engine) (ts : List Tok) (past : List Board) (fin : Board)
    (hr : replay ctx.mg ts Board.startpos = some (past, fin)) :
    handlePosition ctx e (kwPosition :: kwStartpos :: kwMoves :: ts) =
      ([], { e with board := fin,
                    search := { e.search with rep := (past.map (hash (ctx.keys e.newGames))).reverse } }, .running) :=
  position_records_history ctx e _ ts [] Board.startpos fin past (positionBase_startpos _)
    (movesAfter_startpos_moves ts) hr

/-- `position fen <six fields> moves m₁ … mₙ` with a FEN that parses to `b`. -/
theorem position_fen_records (ctx : EngineCtx) (e : Engine) (f1 f2 f3 f4 f5 f6 : List Char) (b : Board)
    (ts : List Tok) (past : List Board) (fin : Board)
    (hf : fenToBoard [f1, f2, f3, f4, f5, f6] = .ok b) (hr : replay ctx.mg ts b = some (past, fin)) :
    handlePosition ctx e (kwPosition :: kwFen :: f1 :: f2 :: f3 :: f4 :: f5 :: f6 :: kwMoves :: ts) =
      ([], { e with board := fin,
                    search := { e.search with rep := (past.map (hash (ctx.keys e.newGames))).reverse } }, .running) := by
  have hb : positionBase (kwPosition :: kwFen :: f1 :: f2 :: f3 :: f4 :: f5 :: f6 :: kwMoves :: ts) = some ([], b) := by
    have hk : kwFen ≠ kwStartpos := by decide
    simp [positionBase, hk, hf]
  exact position_records_history ctx e _ ts [] b fin past hb (movesAfter_fen_moves f1 f2 f3 f4 f5 f6 b ts hf) hr

/-! ### third occurrence ⇒ draw -/

/-- **third occurrence is a draw.** After a `position` command as above, let `s` be any search state whose
    stack is the one `searchPosition` works with: the root hash pushed on the recorded history (the search
    never changes the stack, `negamax_rep`, so this covers every state met inside `searchPosition`).
    For a position `q` whose hash occurs at least twice among the recorded hashes, `negamax` below the root
    (ply ≥ 1) returns score 0 — any game instance hashing with the current key table, any depth, window,
    table content; every key table. -/
theorem third_occurrence_is_draw (ctx : EngineCtx) (e : Engine) (parts ts : List Tok) (out : List (List Char))
    (base fin : Board) (past : List Board)
    (hb : positionBase parts = some (out, base)) (hm : movesAfter parts = some ts)
    (hr : replay ctx.mg ts base = some (past, fin))
    (q : Board) (hq : 2 ≤ (past.map (hash (ctx.keys e.newGames))).count (hash (ctx.keys e.newGames) q))
    (s : SearchState)
    (hs : s.rep = hash (ctx.keys e.newGames) (handlePosition ctx e parts).2.1.board ::
                    (handlePosition ctx e parts).2.1.search.rep)
    (qfuel d ply : Nat) (hply : ply > 0) (alpha beta : Int) :
    negamax (chessGame ctx.mg (ctx.keys e.newGames)) qfuel d q ply alpha beta s
      = (some ⟨0, none⟩, s.incrementNodes) := by
  apply draw_scored_zero_count _ qfuel d q ply alpha beta s hply
  rw [position_records_history ctx e parts ts out base fin past hb hm hr] at hs
  simp only at hs
  rw [hs]
  show 2 ≤ List.count (hash (ctx.keys e.newGames) q) _
  rw [List.count_cons, List.count_reverse]
  omega

/-- the state `searchPosition` starts the root from has exactly that stack. -/
theorem searchPosition_stack (ctx : EngineCtx) (e' : Engine) (k : ZKeys) (qfuel depth : Nat) :
    searchPosition (chessGame ctx.mg k) qfuel e'.board depth e'.search =
      ((negamax (chessGame ctx.mg k) qfuel depth e'.board 0 NEGATIVE_INFINITY INFINITY
          { e'.search with rep := hash k e'.board :: e'.search.rep }).1,
       { (negamax (chessGame ctx.mg k) qfuel depth e'.board 0 NEGATIVE_INFINITY INFINITY
          { e'.search with rep := hash k e'.board :: e'.search.rep }).2 with rep := e'.search.rep }) :=
  searchPosition_eq (chessGame ctx.mg k) qfuel e'.board depth e'.search

/-- and with fewer than two occurrences in (recorded history ++ [root]) the position is NOT treated as a
    repetition: the ordinary search (`negamaxBody`) runs. -/
theorem below_third_occurrence_no_draw (ctx : EngineCtx) (e : Engine) (parts ts : List Tok) (out : List (List Char))
    (base fin : Board) (past : List Board)
    (hb : positionBase parts = some (out, base)) (hm : movesAfter parts = some ts)
    (hr : replay ctx.mg ts base = some (past, fin))
    (q : Board)
    (hq : ((past ++ [fin]).map (hash (ctx.keys e.newGames))).count (hash (ctx.keys e.newGames) q) < 2)
    (s : SearchState)
    (hs : s.rep = hash (ctx.keys e.newGames) (handlePosition ctx e parts).2.1.board ::
                    (handlePosition ctx e parts).2.1.search.rep)
    (qfuel d ply : Nat) (alpha beta : Int) :
    negamax (chessGame ctx.mg (ctx.keys e.newGames)) qfuel d q ply alpha beta s
      = negamaxBody (chessGame ctx.mg (ctx.keys e.newGames)) qfuel d q ply alpha beta s.incrementNodes := by
  apply no_draw_below_two
  rw [position_records_history ctx e parts ts out base fin past hb hm hr] at hs
  simp only at hs
  rw [hs]
  show List.count (hash (ctx.keys e.newGames) q) _ < 2
  rw [List.map_append, List.count_append] at hq
  rw [List.count_cons, List.count_reverse]
  simpa [List.count_cons, Nat.add_comm] using hq

/-! ### non-vacuity -/

example : ({ rep := [5, 7, 5] } : SearchState).isRepetition 5 = true := by decide
example : ({ rep := [5, 7, 5] } : SearchState).isRepetition 7 = false := by decide
example : ({ rep := [] } : SearchState).isRepetition 7 = false := by decide

/-- a toy game: positions are numbers, the hash is the number itself. -/
def toy : Game Nat :=
  { moves := fun _ => [], qmoves := fun _ => [], play := fun p _ => p, inCheck := fun _ => false,
    eval := fun _ => 17, hash := fun p => p.toUInt64, pieceAt := fun _ _ => none }

/-- third occurrence: score 0 although the static evaluation is 17 … -/
example : (negamax toy 5 0 9 1 (-100) 100 { rep := [9, 3, 9] }).1 = some ⟨0, none⟩ := by
  rw [draw_scored_zero_count toy 5 0 9 1 (-100) 100 { rep := [9, 3, 9] } (by decide) (by decide)]
/-- … second occurrence: not a draw, the evaluation is returned … -/
example : (negamax toy 5 0 9 1 (-100) 100 { rep := [3, 9] }).1 = some ⟨17, none⟩ := by
  rw [no_draw_below_two toy 5 0 9 1 (-100) 100 { rep := [3, 9] } (by decide)]
  simp [negamaxBody, probeTT, TT.retrieve, SearchState.incrementNodes, quiesce, toy, orderCaptures, quiesceLoop]
  decide
/-- … and never at the root. -/
example : (negamax toy 5 0 9 0 (-100) 100 { rep := [9, 3, 9] }).1 = some ⟨17, none⟩ := by
  rw [root_not_repetition]
  simp [negamaxBody, probeTT, TT.retrieve, SearchState.incrementNodes, quiesce, toy, orderCaptures, quiesceLoop]
  decide

end Flounder.Props.C09
