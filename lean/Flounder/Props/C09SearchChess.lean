/-
  C09 at the level of the search result, for chess: Props/C09Search.lean instantiated with the engine's game
  `cg k` (any key table `k`) on good boards (valid, at most 16 men a side), reference fuel `QFUEL`.

  The reference value with draws `Spec.Vd` exists on every good board at every depth for every draw predicate
  (`chess_Vd_total`: its tree is a subtree of the tree of `Spec.V`, which is total — Props/QSpecChess.lean), so
  the hypotheses "the reference value exists" disappear:

    * `chess_find_best_move_value_history`  a completed `find_best_move` started on ANY repetition stack `hist`
          returns the minimax value of the tree in which every board whose hash stands twice on
          `hash k b :: hist` is a leaf of value 0 below the root (up to the won / lost class, EQUAL when strictly
          inside the window), with a rules-legal move;
    * `chess_all_moves_repeat_score_zero`   if every legal move leads to a board that occurred at least twice in
          the history, the reported score is 0 (valid boards; no fuel hypothesis);
    * `chess_repeating_move_score_nonneg`   if some legal move does, the reported score is ≥ 0;
    * `chess_depth_one_value_history`       depth 1 on an empty table: no instrumentation hypothesis at all.
-/
import Flounder.Props.C09Search
import Flounder.Props.QSpecChess
import Flounder.Lemmas.DrawTotal

namespace Flounder.Props.C09SearchChess
open Flounder Gen Flounder.Search Flounder.Chess Flounder.Engine Flounder.Props.QTerm

/-- **the reference value with draws exists on every good board**: every depth, every draw predicate, at the
    root and below (fuel `QFUEL`). -/
theorem chess_Vd_total (k : ZKeys) (b : Board) (hg : Good b) (drawn : Board → Bool) (d : Nat) (root : Bool) :
    ∃ v, Spec.Vd (cg k) drawn QFUEL d root b = some v := by
  obtain ⟨v, hv⟩ := QSpecChess.chess_V_total k b hg d
  exact Vd_defined_of_V (cg k) drawn QFUEL d root b v hv

/-- the same from the rank directly (`Search.Vd_total`). -/
example (k : ZKeys) (b : Board) (hg : Good b) (drawn : Board → Bool) (d : Nat) (root : Bool) :
    ∃ v, Spec.Vd (cg k) drawn QFUEL d root b = some v :=
  Vd_total (cg k) drawn (chess_qrank k) (good_movesClosed k) QRANK_BOUND qRank_le d root b hg

/-- **The search with a game history computes minimax-with-draws (chess), total.**  Root `b` any good board,
    any key table, depth `D ≥ 1`, search fuel `qfuel ≥ QFUEL`, any `Limit`, ANY repetition stack `hist` (the
    game history recorded by the `position` command, `C09.position_records_history`); the hash separates the
    boards within `D` plies of `b`; the table is class-sound for the searched stack `hash k b :: hist` (true of
    the empty table); the run completed and reused no deeper record.  Then the value `v` of `b` in the tree in
    which every board whose hash stands twice on `hash k b :: hist` is a leaf of value 0 below the root exists,
    the reported score equals `v` up to the won / lost class — EQUAL when `v` is strictly inside
    (-32767, 32767) —, a rules-legal move is reported whenever one exists, it is optimal in that tree when `v`
    is inside the window, the table is still sound and the stack is `hist` again. -/
theorem chess_find_best_move_value_history (k : ZKeys) (b : Board) (hg : Good b) (hist : List UInt64)
    (D qfuel : Nat) (hq : QFUEL ≤ qfuel) (hD : 1 ≤ D) (limit : Limit) (s s' : SearchState)
    (ro : Option (Int × Option Move))
    (hinj : HashInjOn (cg k) (Search.Within (cg k) b D))
    (hT : C09Search.TTSoundClassD (cg k) (Spec.drawnOn (cg k) ((cg k).hash b :: hist))
      (Search.Within (cg k) b D) QFUEL s.tt)
    (hrep : s.rep = hist)
    (hrun : findBestMove (cg k) qfuel b D limit s = (ro, s')) (hfin : s'.stopSeen = false)
    (hdh : s'.deeperHits = s.deeperHits) :
    ∃ v, Spec.Vd (cg k) (Spec.drawnOn (cg k) ((cg k).hash b :: hist)) QFUEL D true b = some v ∧
    ∃ score mv, ro = some (score, mv) ∧
      Spec.clampClass score = Spec.clampClass v ∧
      (NEGATIVE_INFINITY < v → v < INFINITY → score = v) ∧
      ((∃ m, Spec.legal (Spec.abs b) m = true) → ∃ m, mv = some m ∧ Spec.legal (Spec.abs b) m = true) ∧
      (NEGATIVE_INFINITY < v → v < INFINITY → ∀ j m x, D = j + 1 → mv = some m →
        Spec.Vd (cg k) (Spec.drawnOn (cg k) ((cg k).hash b :: hist)) QFUEL j false ((cg k).play b m) = some x →
          -x = v) ∧
      C09Search.TTSoundClassD (cg k) (Spec.drawnOn (cg k) ((cg k).hash b :: hist))
        (Search.Within (cg k) b D) QFUEL s'.tt ∧
      s'.rep = hist := by
  obtain ⟨v, hvD⟩ := chess_Vd_total k b hg (Spec.drawnOn (cg k) ((cg k).hash b :: hist)) D true
  obtain ⟨score, mv, h1, h2, h3, h4, h5, h6, h7⟩ := C09Search.find_best_move_value_history_horizon (cg k) b hist
    D hinj qfuel QFUEL hq hD limit s s' ro v (fun d _ _ => chess_Vd_total k b hg _ d true) hvD hT hrep hrun
    hfin hdh
  have hne : (∃ m, Spec.legal (Spec.abs b) m = true) → (cg k).moves b ≠ [] := by
    rintro ⟨m, hm⟩ hnil
    have := (mem_moves_iff k hg.1 m).2 hm
    rw [hnil] at this
    cases this
  refine ⟨v, hvD, score, mv, h1, h2, h3, ?_, h5, h6, h7⟩
  intro h
  obtain ⟨m, hm, hmem⟩ := h4 (hne h)
  exact ⟨m, hm, (mem_moves_iff k hg.1 m).1 hmem⟩

/-- the same on a fresh table: a search state holding nothing but the recorded history. -/
theorem chess_find_best_move_value_history_fresh (k : ZKeys) (b : Board) (hg : Good b) (hist : List UInt64)
    (D qfuel : Nat) (hq : QFUEL ≤ qfuel) (hD : 1 ≤ D) (limit : Limit) (s' : SearchState)
    (ro : Option (Int × Option Move))
    (hinj : HashInjOn (cg k) (Search.Within (cg k) b D))
    (hrun : findBestMove (cg k) qfuel b D limit { rep := hist } = (ro, s')) (hfin : s'.stopSeen = false)
    (hdh : s'.deeperHits = 0) :
    ∃ v, Spec.Vd (cg k) (Spec.drawnOn (cg k) ((cg k).hash b :: hist)) QFUEL D true b = some v ∧
    ∃ score mv, ro = some (score, mv) ∧
      Spec.clampClass score = Spec.clampClass v ∧
      (NEGATIVE_INFINITY < v → v < INFINITY → score = v) ∧
      ((∃ m, Spec.legal (Spec.abs b) m = true) → ∃ m, mv = some m ∧ Spec.legal (Spec.abs b) m = true) ∧
      s'.rep = hist := by
  obtain ⟨v, hv, score, mv, h1, h2, h3, h4, _, _, h7⟩ := chess_find_best_move_value_history k b hg hist D qfuel
    hq hD limit { rep := hist } s' ro hinj (C09Search.ttSoundD_fresh (cg k) _ _ _ QFUEL) rfl hrun hfin hdh
  exact ⟨v, hv, score, mv, h1, h2, h3, h4, h7⟩

/-- **every legal move repeats ⇒ score 0 (chess).**  Valid root `b` with at least one legal move, every legal
    move leading to a board whose hash stands at least twice in the recorded history `hist`: a completed
    `find_best_move` (depth `D ≥ 1`, any fuel, any `Limit`) that reused no deeper record reports the score 0
    and a rules-legal move — whatever the material on the board. -/
theorem chess_all_moves_repeat_score_zero (k : ZKeys) (b : Board) (hv : Spec.valid b = true)
    (hist : List UInt64) (D qfuel : Nat) (hD : 1 ≤ D) (limit : Limit) (s s' : SearchState)
    (ro : Option (Int × Option Move))
    (hinj : HashInjOn (cg k) (Search.Within (cg k) b D))
    (hleg : ∃ m, Spec.legal (Spec.abs b) m = true)
    (hall : ∀ m, Spec.legal (Spec.abs b) m = true → 2 ≤ hist.count (hash k ((cg k).play b m)))
    (hT : C09Search.TTSoundClassD (cg k) (Spec.drawnOn (cg k) ((cg k).hash b :: hist))
      (Search.Within (cg k) b D) qfuel s.tt)
    (hrep : s.rep = hist)
    (hrun : findBestMove (cg k) qfuel b D limit s = (ro, s')) (hfin : s'.stopSeen = false)
    (hdh : s'.deeperHits = s.deeperHits) :
    ∃ m, ro = some (0, some m) ∧ Spec.legal (Spec.abs b) m = true := by
  have hne : (cg k).moves b ≠ [] := by
    obtain ⟨m, hm⟩ := hleg
    intro hnil
    have := (mem_moves_iff k hv m).2 hm
    rw [hnil] at this
    cases this
  obtain ⟨m, h1, h2⟩ := C09Search.all_moves_repeat_score_zero (cg k) (horizon (cg k) b D)
    (horizon_ranked (cg k) b D) (SearchRanked.hashInj_horizon (cg k) hinj) qfuel b hist D
    (horizon_root (cg k) b D) hD limit s s' ro hne
    (fun m hm => hall m ((mem_moves_iff k hv m).1 hm))
    (by rw [SearchRanked.horizon_U]; exact hT) hrep hrun hfin hdh
  exact ⟨m, h1, (mem_moves_iff k hv m).1 h2⟩

/-- **a legal move into a repetition ⇒ score ≥ 0 (chess)**: the side to move can take the draw. -/
theorem chess_repeating_move_score_nonneg (k : ZKeys) (b : Board) (hg : Good b) (hist : List UInt64)
    (D qfuel : Nat) (hq : QFUEL ≤ qfuel) (hD : 1 ≤ D) (limit : Limit) (s s' : SearchState)
    (score : Int) (mv : Option Move)
    (hinj : HashInjOn (cg k) (Search.Within (cg k) b D))
    (m : Move) (hm : Spec.legal (Spec.abs b) m = true) (hrepm : 2 ≤ hist.count (hash k ((cg k).play b m)))
    (hT : C09Search.TTSoundClassD (cg k) (Spec.drawnOn (cg k) ((cg k).hash b :: hist))
      (Search.Within (cg k) b D) QFUEL s.tt)
    (hrep : s.rep = hist)
    (hrun : findBestMove (cg k) qfuel b D limit s = (some (score, mv), s')) (hfin : s'.stopSeen = false)
    (hdh : s'.deeperHits = s.deeperHits) :
    0 ≤ score :=
  C09Search.repeating_move_score_nonneg (cg k) (horizon (cg k) b D) (horizon_ranked (cg k) b D)
    (SearchRanked.hashInj_horizon (cg k) hinj) qfuel QFUEL hq b hist D (horizon_root (cg k) b D) hD limit s s'
    score mv m ((mem_moves_iff k hg.1 m).2 hm) hrepm (fun d _ _ => chess_Vd_total k b hg _ d true)
    (by rw [SearchRanked.horizon_U]; exact hT) hrep hrun hfin hdh

/-- **depth-1 search with a game history (chess), unconditional**: on an empty table "no deeper record reused"
    is a theorem (`Search.findBestMove_one_no_deeper`), the reference value exists, so only the hash hypothesis
    (root and its successors get different keys) and "completed" remain.  The value `v` is the maximum over the
    legal moves of 0 where the successor's hash stands twice on `hash k b :: hist` and minus the successor's
    quiescence value elsewhere (`Search.Vd_one_cons`) — the oracle of the driver's `eng.judge1`. -/
theorem chess_depth_one_value_history (k : ZKeys) (b : Board) (hg : Good b) (hist : List UInt64)
    (qfuel : Nat) (hq : QFUEL ≤ qfuel) (limit : Limit) (s s' : SearchState) (ro : Option (Int × Option Move))
    (hinj : HashInjOn (cg k) (Search.Within (cg k) b 1))
    (hE : TTEmpty s.tt) (hrep : s.rep = hist)
    (hrun : findBestMove (cg k) qfuel b 1 limit s = (ro, s')) (hfin : s'.stopSeen = false) :
    ∃ v, Spec.Vd (cg k) (Spec.drawnOn (cg k) ((cg k).hash b :: hist)) QFUEL 1 true b = some v ∧
    ∃ score mv, ro = some (score, mv) ∧
      Spec.clampClass score = Spec.clampClass v ∧
      (NEGATIVE_INFINITY < v → v < INFINITY → score = v) ∧
      ((∃ m, Spec.legal (Spec.abs b) m = true) → ∃ m, mv = some m ∧ Spec.legal (Spec.abs b) m = true) ∧
      s'.rep = hist := by
  obtain ⟨v, hv⟩ := chess_Vd_total k b hg (Spec.drawnOn (cg k) ((cg k).hash b :: hist)) 1 true
  obtain ⟨score, mv, h1, h2, h3, h4, _, h6⟩ := C09Search.depth_one_value_history (cg k) b hist hinj qfuel QFUEL
    hq limit s s' ro v hv hE hrep hrun hfin
  refine ⟨v, hv, score, mv, h1, h2, h3, ?_, h6⟩
  rintro ⟨m, hm⟩
  have hne : (cg k).moves b ≠ [] := by
    intro hnil
    have := (mem_moves_iff k hg.1 m).2 hm
    rw [hnil] at this
    cases this
  obtain ⟨m', hm', hmem⟩ := h4 hne
  exact ⟨m', hm', (mem_moves_iff k hg.1 m').1 hmem⟩

/-! ### non-vacuity -/

/-- the start position after any recorded history: its reference values with draws exist at every depth. -/
example (k : ZKeys) (hist : List UInt64) (d : Nat) :
    ∃ v, Spec.Vd (cg k) (Spec.drawnOn (cg k) ((cg k).hash Board.startpos :: hist)) QFUEL d true Board.startpos
      = some v :=
  chess_Vd_total k Board.startpos good_startpos _ d true

end Flounder.Props.C09SearchChess
