#!/usr/bin/env python3
"""seed_run.py <seeded/<id> dir> [check ids...] [--tier quick|thorough]
Applies the seeded patch to /repo, runs the given checks (default: the property named in meta.json), records
rc + VIOLATION lines, and ALWAYS restores /repo (git checkout -- .).  Prints one JSON line per check."""
import json, os, subprocess, sys
ROOT = os.path.dirname(os.path.dirname(os.path.abspath(__file__)))
def main():
    args = [a for a in sys.argv[1:] if not a.startswith("--")]
    tier = "quick"
    if "--tier" in sys.argv:
        tier = sys.argv[sys.argv.index("--tier") + 1]; args = [a for a in args if a != tier]
    d = os.path.abspath(args[0])
    meta = json.load(open(os.path.join(d, "meta.json"))) if os.path.exists(os.path.join(d, "meta.json")) else {}
    checks = args[1:] or [meta.get("property")]
    st = subprocess.run(["git", "-C", "/repo", "status", "--porcelain"], capture_output=True, text=True).stdout.strip()
    if st:
        print("refusing: /repo working tree not clean:\n" + st); return 2
    r = subprocess.run(["git", "-C", "/repo", "apply", os.path.join(d, "patch.diff")], capture_output=True, text=True)
    if r.returncode != 0:
        print("patch does not apply:", r.stderr); return 2
    out = []
    # evidence files describe runs on /repo ITSELF: what a run against a seeded change writes is set aside, never kept
    import shutil, tempfile
    evdir = os.path.join(ROOT, "evidence")
    keep = tempfile.mkdtemp(prefix="evidence-keep-", dir=os.path.join(ROOT, "work") if os.path.isdir(os.path.join(ROOT, "work")) else None)
    for fn in os.listdir(evdir):
        shutil.copy2(os.path.join(evdir, fn), os.path.join(keep, fn))
    try:
        for c in checks:
            p = subprocess.run([os.path.join(ROOT, "check"), c, tier], capture_output=True, text=True, cwd=ROOT)
            lines = [l for l in p.stdout.splitlines() if l.startswith("VIOLATION") or l.startswith("KNOWN-FINDING") or l.startswith("[") or l.strip().startswith("broken:")]
            rec = {"seed": os.path.basename(d), "check": c, "tier": tier, "rc": p.returncode, "lines": lines}
            # keep the replay the check produced
            for l in lines:
                if l.startswith("VIOLATION") and "replay=" in l:
                    rp = l.split("replay=")[1].split()[0]
                    if os.path.exists(rp):
                        rec["replay_head"] = open(rp).read()[:1500]
                    break
            print(json.dumps(rec)); out.append(rec)
    finally:
        subprocess.run(["git", "-C", "/repo", "checkout", "--", "."])
        subprocess.run(["git", "-C", "/repo", "clean", "-fdq"])
        for fn in os.listdir(keep):
            shutil.copy2(os.path.join(keep, fn), os.path.join(evdir, fn))
        shutil.rmtree(keep, ignore_errors=True)
    return 0
if __name__ == "__main__":
    sys.exit(main())
