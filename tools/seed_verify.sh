#!/bin/bash
# seed_verify.sh <dir with patch.diff [demo.diff] run_demo.sh> <scratch worktree of /repo>
# Confirms, in the scratch worktree: (1) demo passes on the clean tree, (2) with patch.diff the crate builds and the
# whole existing test suite passes, (3) with patch.diff the demo fails.  Prints a JSON summary; leaves the worktree clean.
set -u
D=$(readlink -f "$1"); WT=$(readlink -f "$2")
export CARGO_NET_OFFLINE=true
cd "$WT" || exit 2
git checkout -q -- . ; git clean -fdq -e target
clean_demo=NA; suite=NA; patched_demo=NA; suite_line=""
apply_demo() { if [ -s "$D/demo.diff" ]; then git apply "$D/demo.diff" || return 1; fi; return 0; }
# (1) clean tree
if apply_demo; then timeout 900 bash "$D/run_demo.sh" > "$D/.demo_clean.log" 2>&1; clean_demo=$?; else clean_demo=demo-apply-failed; fi
git checkout -q -- . ; git clean -fdq -e target
# (2) patched: suite (without the demo test)
if git apply "$D/patch.diff"; then
  timeout 3000 cargo test --workspace --no-fail-fast --offline -j 6 > "$D/.suite.log" 2>&1; suite=$?
  suite_line=$(grep -h "^test result" "$D/.suite.log" | tr '\n' ' ')
  # (3) patched demo
  if apply_demo; then timeout 900 bash "$D/run_demo.sh" > "$D/.demo_patched.log" 2>&1; patched_demo=$?; else patched_demo=demo-apply-failed; fi
else
  suite=patch-apply-failed
fi
git checkout -q -- . ; git clean -fdq -e target
printf '{"clean_demo_rc":"%s","suite_rc":"%s","suite":"%s","patched_demo_rc":"%s"}\n' "$clean_demo" "$suite" "$suite_line" "$patched_demo"
