"""
Per-property configuration of ./check: correspondence budgets, trusted base, evidence text,
custom (black-box / hook-based) steps.
"""
import json
import os
import subprocess

KERNEL = "Lean 4.33.0 kernel (lake build re-checks every theorem; thorough re-runs leanchecker on the .olean files)"
AXIOMS = "axioms limited to propext, Classical.choice, Quot.sound (verified per theorem by #print axioms on every run); no sorry/admit/native_decide/bv_decide/own axioms"
TIE = "hand-written Lean model tied to /repo's working tree by the correspondence run (harness pulls /repo/src/*.rs in by #[path]; implementation vs model vs executable spec on the same operations)"
EXTRACT = "tools/extract_consts.py (constants/tables re-translated from /repo/src on every run, fails closed)"


def replay(pid, path, ctx):
    """re-run a recorded failing case: feed its ops to the driver and, where the harness supports it, to the engine"""
    obj = json.load(open(path))
    print(json.dumps({k: obj[k] for k in obj if k not in ("case_ops",)}, indent=1)[:3000])
    ops = obj.get("case_ops")
    if ops:
        p = subprocess.run([ctx["driver"]], input="\n".join(ops) + "\n", stdout=subprocess.PIPE, text=True)
        outs = p.stdout.strip().split("\n")
        print("driver on the recorded operations (last line is the failing one):")
        for o, m in list(zip(ops, outs))[-6:]:
            print("   ", o, "=>", m)
        ok, out, _ = ctx["cargo"]()
        if ok:
            p = subprocess.run([ctx["harness"], "replay", "0", "0", os.path.join(ctx["work"], "replay")], input="\n".join(ops) + "\n", stdout=subprocess.PIPE, text=True)
            impl = p.stdout.strip().split("\n")
            print("implementation on the same operations:")
            for o, m in list(zip(ops, impl))[-6:]:
                print("   ", o, "=>", m)
            last_impl = impl[-1] if impl else None
            last = outs[-1].split("\t") if outs else []
            spec = last[1][2:] if len(last) > 1 else (last[0][2:] if last else None)
            if last_impl is not None and spec is not None and last_impl != spec:
                print(f"VIOLATION property={pid} replay={path}")
                return 1
            print("replay: implementation now agrees with the spec on this case")
            return 0
    return 0


PROPS = {}

PROPS["C15"] = {
    "level": "proof",
    "budget": {"quick": [("c15", 8000), ("c15s", 8), ("c15big", 1300000)], "thorough": [("c15", 200000), ("c15s", 600), ("c15big", 6000000)], "search": [("c15", 400000), ("c15s", 1200), ("c15big", 6000000)]},
    "rule": "random store/retrieve sequences (1-60 ops, 1-8 distinct keys spread over u64, depths 0-5 plus 255, evals incl. i32::MIN/MAX) on the real TranspositionTable; a case is non-trivial when it contains both a store rejected by a deeper record and one that replaced/tied; distinct = distinct op traces; and at the level of the search (c15s): several searches on one Searcher, deeper first and shallower later, on a position and its successors, the depth of the record kept for each watched position observed before and after every search and judged (never shallower, never lost), table digest compared with the model; and a BIG table (c15big: more than a million records under consecutive keys, then shallower / equal / deeper stores and lookups for keys inside the range, at its ends and new keys)",
    "trusted_base": [KERNEL, AXIOMS, TIE, "std::collections::HashMap and Std.HashMap both behave as finite maps under get/insert (modelled, not verified)"],
    "assumptions": ["HashMap::get/insert behave as a finite map", "the model's fidelity outside the generated op sequences rests on reading the 20-line store/retrieve code"],
    "finding_key": lambda sf: None,
}

PROPS["C14"] = {
    "level": "proof",
    "prop_modules": ["Flounder.Props.C14", "Flounder.Props.C14Sym", "Flounder.Props.C14Bound"],
    "budget": {"quick": [("c14", 12000)], "thorough": [("c14", 300000)], "search": [("c14", 600000)]},
    "rule": "valid positions (play-outs from a 27-FEN corpus + constructed positions filtered by Valid) and a malformed stream (overlapping/arbitrary bitboards), evaluated in random order on ONE shared Evaluator with re-evaluations of earlier boards; every valid board is also evaluated side-flipped and mirrored; non-trivial = distinct board with a non-zero score",
    "trusted_base": [KERNEL, AXIOMS, TIE, EXTRACT, "i32 modelled as Int (no-overflow theorem covers every 8-bitboard input); Rust `/` = Int.tdiv"],
    "assumptions": ["BitboardIterator yields the set bits in ascending order (modelled; equivalence with the lsb loop is proved in Lemmas/BitIter when present)", "PieceCountOK (<= 16 men a side, one king each) for the magnitude bound"],
    "finding_key": lambda sf: None,
}
PROPS["C11"] = {
    "level": "proof",
    "prop_modules": ["Flounder.Props.C11", "Flounder.Props.C11Xor"],
    "budget": {"quick": [("c11", 1200)], "thorough": [("c11", 40000)], "search": [("c11", 80000)]},
    "rule": "for each REAL key draw (ZobristTable::new(), 837 keys, KeysGood checked) 40 boards (valid + malformed): hash vs model vs XOR-of-features spec; counter variants must hash equal; every single-component edit (side, each right, ep, man removed/recoloured/retyped/moved) must hash different; transposed move orders must hash equal; distinct = distinct boards",
    "trusted_base": [KERNEL, AXIOMS, TIE, "rand::thread_rng is not modelled: theorems quantify over all key tables; KeysGood (837 keys non-zero, pairwise distinct) is checked on every draw the run makes"],
    "assumptions": ["sensitivity to single-component changes needs KeysGood keys; P(not KeysGood) < 1.9e-14 per process under a uniform generator (remark, not a theorem)"],
    "finding_key": lambda sf: None,
}
PROPS["C12"] = {
    "level": "proof",
    "prop_modules": ["Flounder.Props.C12", "Flounder.Props.C12Parse"],
    "budget": {"quick": [("c12", 5000)], "thorough": [("c12", 400000)], "search": [("c12", 800000)]},
    "rule": "go commands through the REAL parser (hook verif_go_budget): the four clock pairs in random order, pairs missing, values from {0,1,4999,5000,5001,5025,random up to 2^40}; irregular stream with depth/movetime/infinite/junk/missing values/bad numbers; for every well-formed command (optionally with a depth cap or movestogo before or after the clocks; negative clock values included) a twin with the opponent's values replaced must give the same finite budget and both must fit the mover's clock; black-box: clock commands on the real binary (clock under the reserve, zero clock, depth after the clocks, opponent's values huge) must be answered before the mover's clock runs out; incl. an increment-dominated clock on a volatile-score position and two-go sessions (an early-finishing timed go, then a small clock); distinct = distinct command texts",
    "trusted_base": [KERNEL, AXIOMS, TIE, EXTRACT, "u64 milliseconds modelled as Nat (no_u64_overflow covers values below 2^62 ms)", "str::split_whitespace / str::parse::<u64> modelled by digitsVal/parseU64 over List Char"],
    "assumptions": ["clock values below 2^62 ms", "hook verif_go_budget observes the parameters handle_go_command hands to find_best_move"],
    "finding_key": lambda sf: None,
}

CHESS_RULE = "valid positions: the 27-FEN corpus (castling through/out of/into check, ep pinned on the 5th rank, ep capturing the checker, ep exposing a diagonal, double check, promotions capturing corner rooks with rights set, mate/stalemate, 8 queens, 16 pawns on the 7th ranks), every successor of the corpus positions, random play-outs (0-60 plies, biased towards captures/castles/ep/promotions) and constructed positions (kings + up to 20 random men, rights/ep sampled, filtered by Valid); distinct = distinct boards"
PROPS["C01"] = {
    "level": "other",
    "prop_modules": ["Flounder.Props.C01"],
    # the search pass also dumps the attack tables exhaustively: when a table constant changed (the kernel facts of C10 no longer
    # check) the (square, occupancy) whose attack set is wrong is the most direct failing input for the generator built on it
    # c02: positions REACHED by the engine's own make_move (games), boards and move sets judged along the way by the rules
    "budget": {"quick": [("c01", 12000), ("c02", 2500)], "thorough": [("c01", 400000), ("c02", 200000)], "search": [("c01", 800000), ("c10x", 20000), ("c02", 400000)]},
    "rule": CHESS_RULE + "; per board three operations: the SET of generated moves (sorted, duplicates kept) vs model vs Spec.legalMoves, the ORDERED list vs model, the check test vs Spec.inCheck",
    "explanation": "C01's full theorem (GenerateMovesExact: Nodup + generated = Spec.legal + check test exact, for every Valid board) is stated in Props/C01.lean and is not closed yet; what is machine-checked so far is listed under 'theorems' (filter structure, double check, and the table exactness it relies on via Spec.LookupExact when Props/C10 is closed). Until the layers L2-L7 of DESIGN.md are closed this property is decided per position by the three-way correspondence: real generate_moves vs the Lean model vs the executable FIDE spec (Spec/Chess.lean) — a bounded, sampled decision, labelled as such.",
    "trusted_base": [KERNEL, AXIOMS, TIE, EXTRACT, "Spec/Chess.lean (FIDE rules on a mailbox board, ~230 lines) is the meaning of 'legal'"],
    "assumptions": ["the full refinement theorem is open: assurance for this property currently comes from the differential run against the executable spec, not from a closed proof"],
    "finding_key": lambda sf: None,
    "timeout": 3000,
}
PROPS["C02"] = {
    "level": "proof",
    "budget": {"quick": [("c02", 8000), ("c04", 250), ("c09", 40)], "thorough": [("c02", 1500000), ("c04", 4000), ("c09", 600)], "search": [("c02", 2000000), ("c04", 8000), ("c09", 1200)]},
    "rule": "every legal move of every corpus position, then random games of 1-600 plies from corpus/generated valid positions with the board compared (all 8 bitboards, side, rights, ep, counters) after EVERY ply against the model and against Spec.play; plus a malformed stream (arbitrary boards x arbitrary moves) for make_move totality incl. panics; and moves applied through the engine's own `position ... moves` path (generator c04: several related position commands per engine, board after each vs the fold of Spec.play); distinct = distinct (board, move) pairs",
    "trusted_base": [KERNEL, AXIOMS, TIE, EXTRACT, "Spec/Chess.lean play/keepsRight is the meaning of 'successor position'"],
    "assumptions": ["u8/i8 square arithmetic modelled by Nat/Int (wrap-around unreachable on valid boards)"],
    "finding_key": lambda sf: None,
}
PROPS["C17"] = {
    "level": "other",
    "budget": {"quick": [("c17", 8000)], "thorough": [("c17", 300000)], "search": [("c17", 600000), ("c10x", 20000)]},
    "rule": CHESS_RULE + "; per board: generate_quiescence_moves (sorted) vs model vs {legal m | captures or promotes or gives check by the rules}, and the move list search_until_quiet itself selects (hook inside the search) vs model vs (in check ? all legal : tactical); now and then preceded on the SAME searcher by a burst of cut-off searches or by a completed shallow search of that very position",
    "explanation": "Machine-checked: the selection is exactly the filter of the generated moves by capture|promotion|check, all generated moves when in check (Props/C17.lean). The identification of the engine's is_check with 'gives check under the rules' (FullStatement) depends on C01/C02 and is decided per position by the correspondence until those close.",
    "trusted_base": [KERNEL, AXIOMS, TIE, "hook verif_quiescence_move_set records the list chosen inside search_until_quiet"],
    "assumptions": ["FullStatement is open pending C01/C02"],
    "finding_key": lambda sf: None,
}
PROPS["C10"] = {
    "level": "proof",
    "budget": {"quick": [("c10x", 20000)], "thorough": [("c10x", 2000000)], "search": [("c10x", 2000000)]},
    "rule": "EXHAUSTIVE on the tables: every subset of every square's relevant mask for rook and bishop (107 648 lookups), all 128 leaper entries, all 64x64 segment/line entries, masks/magics/relevant bits of all 128 (piece, square); plus random FULL 64-bit occupancies (bits off the mask must not matter); each compared: engine vs model vs geometric spec (sliderReach/onSegment/onLine/knightStep/kingStep)",
    "exhaustive": True,
    "trusted_base": [KERNEL, AXIOMS, TIE, EXTRACT, "128 per-square facts `checkSquare b sq = true` are decided by kernel evaluation (decide +kernel) of a Nat-based checker over ALL 107 648 mask subsets, lifted to all 2^64 occupancies by the proved soundness lemma checkSquare_sound; no native_decide"],
    "assumptions": ["the model of magic.rs/lookup.rs (ray-walk loops, table build fold, lookup arithmetic) is tied to the code by the exhaustive table dump on every run"],
    "finding_key": lambda sf: None,
}

# ------------------------------------------------------------------------------------------------ search / engine properties
import blackbox  # noqa: E402

SEARCH_TB = [KERNEL, AXIOMS, TIE, EXTRACT,
             "the search model is generic over an abstract game; its chess instance plugs in the models of C01/C02/C14/C11",
             "std HashMap / Vec / stable sort (sort_by_cached_key ~ List.mergeSort) modelled, not verified",
             "Instant::now()/elapsed() modelled as a deadline oracle over poll indices / node counts (every monotone clock); termination of quiescence on every valid board with <= 16 men a side is PROVED (Props/QTerm.lean: recursion depth <= 49 502 944, result independent of the fuel); the machine stack that such a recursion needs is not modelled"]
HASHINJ = "HashInj: no Zobrist collision among the positions a run visits (hypothesis of the theorems; probability remark in DESIGN.md C11)"

PROPS["C12"]["custom"] = [blackbox.step_clock_go]
PROPS["C01"]["level"] = "proof"
PROPS["C01"]["prop_modules"] = ["Flounder.Props.C01"]
PROPS["C01"].pop("explanation", None)
PROPS["C01"]["assumptions"] = ["Spec/Chess.lean states the FIDE rules correctly (it is also run against the engine on every check)", "BitboardIterator = ascending set bits (proved equal to the lsb loop model in Lemmas/BitIter)"]
PROPS["C17"]["level"] = "proof"
PROPS["C17"].pop("explanation", None)
PROPS["C17"]["assumptions"] = ["as C01/C02"]

PROPS["C05"] = {
    "level": "proof",
    "prop_modules": ["Flounder.Props.C05", "Flounder.Props.SearchRanked", "Flounder.Props.ChessSearch", "Flounder.Props.C05Range", "Flounder.Lemmas.QSpec", "Flounder.Props.QSpecChess", "Flounder.Lemmas.QBudget"],
    "budget": {"quick": [("c05", 60), ("tie", 25), ("c09", 40)], "thorough": [("c05", 1200), ("tie", 500), ("c09", 600)], "search": [("c05", 2400), ("tie", 1000), ("c09", 1200)]},
    "rule": "positions with a measured finite quiescence tree (small-material families + play-outs, accepted only if every successor to the search depth has a quiescence tree under a node cap; reject rate printed): fresh searcher, iterative deepening to depth 1..3, score (won/lost beyond the window) and returned move compared with plain minimax Spec.V computed by the Lean spec; quiescence value vs Spec.Q; plus the strict tie of the search model: full result incl. node counts, poll counts, reuse counters and a digest of the whole transposition table after every (possibly interrupted) search, and order_moves/order_captures outputs; every key table drawn is checked for KeysGood (non-zero, pairwise distinct); searches on the engine's own searcher with a game history in place (generator c09) are tied to the model incl. node counts",
    "trusted_base": SEARCH_TB + [HASHINJ],
    "assumptions": [HASHINJ, "the reference leaf value Spec.Q descends only into children that can change the value (mating moves and moves that improve the mover's static score); it equals the plain stand-pat minimax value wherever the plain tree is finite (Qplain_agrees), solves the plain minimax equations wherever defined (Q_is_minimax) and is defined on EVERY good chess board (chess_Q_total) — QFinite is no longer a hypothesis for chess (chess_find_best_move_value_total)", "no record cached by a deeper search was reused (instrumented per run: deeper=0)"],
    "finding_key": lambda sf: None,
    "timeout": 3000,
}
PROPS["C06"] = {
    "level": "proof",
    "prop_modules": ["Flounder.Props.C06", "Flounder.Props.C06Full", "Flounder.Props.C06Guard"],
    "custom": [blackbox.step_after_timed],
    "budget": {"quick": [("c06", 12)], "thorough": [("c06", 250)], "search": [("c06", 500)]},
    "rule": "for small-tree positions: a deadline at EVERY node count 1..total (exhaustive when the completed search has <= 120 nodes, sampled otherwise), expressed both as node budget and as poll index; 1-3 interrupted searches, then every record left in the table for the root and its successors audited against minimax (s.ttclaim), a later completed search judged against minimax (only when no deeper record was reused), and the repetition stack length compared (rep=); one case in three on the ENGINE's own searcher with a game history recorded by a position command: fingerprint of the history record before/after every cut-off search (eng.repsame), later search tied and judged against minimax-with-draws; black-box with REAL clock budgets: go movetime 0/1/3 or a clock under the reserve, then go depth d in the same process must complete all d iterations like a fresh process",
    "trusted_base": SEARCH_TB + [HASHINJ],
    "assumptions": [HASHINJ, "existence of the reference values is a hypothesis of the generic theorems; for chess it is discharged on every good board (Props/QSpecChess.lean: chess_V_total)", "the wall clock is abstracted to 'some poll is the first to return true' (every monotone clock is such an oracle)"],
    "finding_key": lambda sf: None,
    "timeout": 3000,
}
PROPS["C07"] = {
    "level": "proof",
    "prop_modules": ["Flounder.Props.C07", "Flounder.Props.C07Dense"],
    "budget": {"quick": [("c07", 12)], "thorough": [("c07", 250)], "search": [("c07", 500)]},
    "custom": [blackbox.step_latency],
    "rule": "as C06 (deadline at every node count / poll index): the hook counter 'nodes entered after should_stop() first returned true' must be 0 (theorem no_new_work_after_stop) and poll counts must match the model; black-box: go movetime T on 5 positions incl. quiescence-explosive ones (16 pawns on the 7th ranks, 8 queens) must answer within T + 400 ms (observed, not proved); go forms with a depth cap or standard parameters this engine does not implement (nodes, mate) next to movetime; volatile-score positions (score collapses between iterations), also after a clock-mode go on another position in the same process",
    "trusted_base": SEARCH_TB,
    "assumptions": ["the wall-clock cost of the at most (depth + quiescence depth) unwinding steps and of one in-flight node is observed black-box, not proved"],
    "finding_key": lambda sf: None,
    "timeout": 3000,
}
PROPS["C08"] = {
    "level": "proof",
    "prop_modules": ["Flounder.Props.C08", "Flounder.Props.C08Ranked", "Flounder.Props.ChessSearch", "Flounder.Props.ChessSearchExample", "Flounder.Props.QSpecChess"],
    "budget": {"quick": [("c08", 80)], "thorough": [("c08", 500)], "search": [("c08", 1000)]},
    "rule": "generated positions containing a mate in one (play-outs + heavy-piece small positions, filtered): fresh searcher at depths 1..4, the answer judged by the executable rules (must mate); positions with both mate-allowing and safe moves at depths 2..3 (answer must be safe), incl. positions with a single safe move",
    "trusted_base": SEARCH_TB + [HASHINJ],
    "assumptions": [HASHINJ, "EvalBound (C14) for the positions searched", "no deeper record reused for the depth-2/3 half (as C05); the reference values exist on every good board (chess_avoidable_mate_avoided_total needs no finiteness hypothesis)"],
    "finding_key": lambda sf: None,
    "timeout": 3000,
}
PROPS["C03"] = {
    "level": "proof",
    "prop_modules": ["Flounder.Props.C03", "Flounder.Props.SearchRanked", "Flounder.Props.ChessSearch", "Flounder.Props.ChessSearchExample", "Flounder.Props.C03Engine", "Flounder.Props.C03EngineExample", "Flounder.Props.QTerm"],
    "budget": {"quick": [("c03", 15), ("c04", 120)], "thorough": [("c03", 400), ("c04", 2000)], "search": [("c03", 800), ("c04", 4000)]},
    "custom": [blackbox.step_transcripts, blackbox.step_timed],
    "rule": "in-process: after 0-3 earlier (possibly interrupted) searches on other positions, the position is searched with a deadline at every early poll (0 = zero budget), sampled later polls/node counts and no deadline; every answer judged by the Lean rules spec (legal; 'no move' only without legal moves); mate/stalemate positions. black-box: generated UCI scripts on the real binary, one bestmove per go, legal by the spec; real clocks (movetime 0/1/5/30, clocks around the 5 s reserve)",
    "trusted_base": SEARCH_TB + [HASHINJ],
    "assumptions": [HASHINJ, "an UNLIMITED search terminates on every good board (Props/QTerm.lean) but no bound on its running time or stack use is claimed (quiescence follows every check; the tree can be astronomically large)"],
    "finding_key": lambda sf: None,
    "timeout": 3000,
}
PROPS["C04"] = {
    "level": "proof",
    "prop_modules": ["Flounder.Props.C04", "Flounder.Props.C04Gen"],
    "budget": {"quick": [("c04", 300), ("c09", 40)], "thorough": [("c04", 6000), ("c09", 600)], "search": [("c04", 12000), ("c09", 1200)]},
    "rule": "1-3 position commands per engine (startpos / FEN of corpus and generated valid positions, counters from {0,1,49,99,100,150} x {1,2,49,255,256,300,5949,65535}, irregular spacing), each followed by a random legal game (0-200 plies, all move kinds, all promotion pieces) written in UCI text by an independent printer; the engine's board after the command vs the model vs the fold of Spec.play; distinct = distinct command lines",
    "trusted_base": [KERNEL, AXIOMS, TIE, EXTRACT, "str::split_whitespace / split / parse modelled over List Char (ASCII white space)", "harness FEN/UCI printers generate the inputs"],
    "assumptions": ["FEN counters below 65536 (the widened field type, re-extracted from fen.rs)"],
    "finding_key": lambda sf: None,
}
PROPS["C09"] = {
    "level": "proof",
    "prop_modules": ["Flounder.Props.C09", "Flounder.Props.C09Search", "Flounder.Props.C09SearchChess", "Flounder.Props.C09SearchExample", "Flounder.Props.C09Engine", "Flounder.Lemmas.QBudgetDraw"],
    "budget": {"quick": [("c09", 150)], "thorough": [("c09", 2500)], "search": [("c09", 5000)]},
    "rule": "histories with repetitions: games biased towards shuffling pieces back and forth (0/1/2/3 earlier occurrences of each candidate successor), several position commands in a row; after each command every successor of the current position is asked 'draw by repetition?' (hook verif_is_repetition_draw on the engine's own searcher) vs model vs a spec that counts positions in the history given with the LAST position command; long games in which the two earlier occurrences lie more than 100 plies back; after the last position command of a case a depth-1 SEARCH on the engine's own searcher, its value judged against max over moves of (0 for a third-occurrence successor, else minus the quiescence value), and depth 2-5 searches with the history in place tied to the model incl. node counts; depth 2-4 searches are additionally JUDGED against minimax-with-draws (Spec.Vd: every position that occurred twice in history + root is a leaf worth 0 below the root) whenever no deeper record was reused (theorem find_best_move_value_history)",
    "trusted_base": [KERNEL, AXIOMS, TIE, HASHINJ],
    "assumptions": [HASHINJ, "results cached before the history existed are outside the property (as stated in it)"],
    "finding_key": lambda sf: None,
}
PROPS["C13"] = {
    "level": "proof",
    "budget": {"quick": [("tie", 25)], "thorough": [("tie", 500)], "search": [("tie", 1000)]},
    "custom": [blackbox.step_transcripts, blackbox.step_newgame, blackbox.step_heavy_sessions],
    "rule": "black-box: every generated script is run in 3 fresh processes of the real binary (3 independent key draws): transcripts (scores, node counts, pv, bestmove; time/nps removed) must be identical and equal to the Lean model's transcript computed under the model's own keys; prefix + ucinewgame + suffix must answer the suffix exactly like a fresh process, and a script repeated after ucinewgame must print the fresh output twice; one heavy session (three middlegame searches, ~10^5..10^6 nodes, not replayed by the model) must print the same transcript in several processes. in-process: model vs engine under the engine's real drawn keys incl. node counts and TT digest",
    "trusted_base": SEARCH_TB + [HASHINJ],
    "assumptions": [HASHINJ],
    "finding_key": lambda sf: None,
    "timeout": 3000,
}
PROPS["C16"] = {
    "level": "proof",
    "budget": {"quick": [], "thorough": [], "search": []},
    "custom": [lambda tier, seed, ctx: blackbox.step_transcripts(tier, seed, ctx, flavours=("handshake", "noquit", "mixed"),
                                                                encodings=[("lf", "nofinal", "crlf"), ("lf", "badutf8", "nofinal"), ("lf", "crlf", "badutf8")]),
               blackbox.step_eof_during_search],
    "rule": "black-box on the real binary: generated scripts interleaving uci / isready / ucinewgame / unknown words / blank and white-space lines / mixed case / position / go depth n, ending with or without quit (quit with trailing tokens; lines after quit must be ignored), lines with non-ASCII text (byte-order mark, accents, emoji, NUL), each script fed three times with different stdin encodings (LF, CRLF, last line unterminated, lines that are not valid UTF-8 inserted — those must be skipped silently) , very long unknown lines (256 B .. 64 KiB) with a command word starting exactly at a buffer-size boundary, move lists of 850-1750 plies in one line, the same game sent again (same or one move longer) right after ucinewgame: stdout must equal the Lean model's transcript, exit status must be 0 both on quit and at end of input (a hang is a timeout = violation)",
    "trusted_base": [KERNEL, AXIOMS, "Engine.uciLoop models stdin as a finite list of lines followed by end of input, process::exit(0)/return from main as Outcome.exited 0", "process-level facts (exit status, no hang) are observed black-box"],
    "assumptions": ["read_line returns Ok(0) at end of input (documented behaviour of std)"],
    "finding_key": lambda sf: None,
}

# source files outside the anchors' call closure whose change should also enlarge the budget (search-level / position-path oracles)
PROPS["C15"]["extra_files"] = ["search.rs"]
PROPS["C17"]["extra_files"] = ["search.rs"]
PROPS["C02"]["extra_files"] = ["uci.rs"]
PROPS["C01"]["extra_files"] = ["fen.rs"]
PROPS["C11"]["extra_files"] = ["fen.rs"]
PROPS["C14"]["extra_files"] = ["search.rs"]
