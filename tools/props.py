"""
Per-property configuration of ./check: correspondence budgets, trusted base, evidence text,
custom (black-box / hook-based) steps.
"""
import json
import os
import subprocess

KERNEL = "Lean 4.33.0 kernel (lake build re-checks every theorem; thorough re-runs leanchecker on the .olean files)"
AXIOMS = "axioms limited to propext, Classical.choice, Quot.sound (verified per theorem by #print axioms on every run); no sorry/admit/native_decide/bv_decide/own axioms"
TIE = "hand-written Lean model tied to /repo's working tree by the correspondence run (harness pulls /repo/src/*.rs in by #[path]; implementation vs model vs executable spec on the same operations)"
EXTRACT = "tools/extract_consts.py (constants/tables re-translated from /repo/src on every run, fails closed)"


def replay(pid, path, ctx):
    """re-run a recorded failing case: feed its ops to the driver and, where the harness supports it, to the engine"""
    obj = json.load(open(path))
    print(json.dumps({k: obj[k] for k in obj if k not in ("case_ops",)}, indent=1)[:3000])
    ops = obj.get("case_ops")
    if ops:
        p = subprocess.run([ctx["driver"]], input="\n".join(ops) + "\n", stdout=subprocess.PIPE, text=True)
        outs = p.stdout.strip().split("\n")
        print("driver on the recorded operations (last line is the failing one):")
        for o, m in list(zip(ops, outs))[-6:]:
            print("   ", o, "=>", m)
        ok, out, _ = ctx["cargo"]()
        if ok:
            p = subprocess.run([ctx["harness"], "replay", "0", "0", os.path.join(ctx["work"], "replay")], input="\n".join(ops) + "\n", stdout=subprocess.PIPE, text=True)
            impl = p.stdout.strip().split("\n")
            print("implementation on the same operations:")
            for o, m in list(zip(ops, impl))[-6:]:
                print("   ", o, "=>", m)
            last_impl = impl[-1] if impl else None
            last = outs[-1].split("\t") if outs else []
            spec = last[1][2:] if len(last) > 1 else (last[0][2:] if last else None)
            if last_impl is not None and spec is not None and last_impl != spec:
                print(f"VIOLATION property={pid} replay={path}")
                return 1
            print("replay: implementation now agrees with the spec on this case")
            return 0
    return 0


PROPS = {}

PROPS["C15"] = {
    "level": "proof",
    "budget": {"quick": [("c15", 3000)], "thorough": [("c15", 200000)], "search": [("c15", 400000)]},
    "rule": "random store/retrieve sequences (1-60 ops, 1-8 distinct keys spread over u64, depths 0-5 plus 255, evals incl. i32::MIN/MAX) on the real TranspositionTable; a case is non-trivial when it contains both a store rejected by a deeper record and one that replaced/tied; distinct = distinct op traces",
    "trusted_base": [KERNEL, AXIOMS, TIE, "std::collections::HashMap and Std.HashMap both behave as finite maps under get/insert (modelled, not verified)"],
    "assumptions": ["HashMap::get/insert behave as a finite map", "the model's fidelity outside the generated op sequences rests on reading the 20-line store/retrieve code"],
    "finding_key": lambda sf: None,
}

PROPS["C14"] = {
    "level": "proof",
    "budget": {"quick": [("c14", 4000)], "thorough": [("c14", 300000)], "search": [("c14", 600000)]},
    "rule": "valid positions (play-outs from a 27-FEN corpus + constructed positions filtered by Valid) and a malformed stream (overlapping/arbitrary bitboards), evaluated in random order on ONE shared Evaluator with re-evaluations of earlier boards; every valid board is also evaluated side-flipped and mirrored; non-trivial = distinct board with a non-zero score",
    "trusted_base": [KERNEL, AXIOMS, TIE, EXTRACT, "i32 modelled as Int (no-overflow theorem covers every 8-bitboard input); Rust `/` = Int.tdiv"],
    "assumptions": ["BitboardIterator yields the set bits in ascending order (modelled; equivalence with the lsb loop is proved in Lemmas/BitIter when present)", "PieceCountOK (<= 16 men a side, one king each) for the magnitude bound"],
    "finding_key": lambda sf: None,
}
PROPS["C11"] = {
    "level": "proof",
    "budget": {"quick": [("c11", 400)], "thorough": [("c11", 40000)], "search": [("c11", 80000)]},
    "rule": "for each REAL key draw (ZobristTable::new(), 837 keys, KeysGood checked) 40 boards (valid + malformed): hash vs model vs XOR-of-features spec; counter variants must hash equal; every single-component edit (side, each right, ep, man removed/recoloured/retyped/moved) must hash different; transposed move orders must hash equal; distinct = distinct boards",
    "trusted_base": [KERNEL, AXIOMS, TIE, "rand::thread_rng is not modelled: theorems quantify over all key tables; KeysGood (837 keys non-zero, pairwise distinct) is checked on every draw the run makes"],
    "assumptions": ["sensitivity to single-component changes needs KeysGood keys; P(not KeysGood) < 1.9e-14 per process under a uniform generator (remark, not a theorem)"],
    "finding_key": lambda sf: None,
}
PROPS["C12"] = {
    "level": "proof",
    "budget": {"quick": [("c12", 5000)], "thorough": [("c12", 400000)], "search": [("c12", 800000)]},
    "rule": "go commands through the REAL parser (hook verif_go_budget): the four clock pairs in random order, pairs missing, values from {0,1,4999,5000,5001,5025,random up to 2^40}; irregular stream with depth/movetime/infinite/junk/missing values/bad numbers; for every well-formed command a twin with the opponent's values replaced must give the same budget and both must fit the mover's clock; distinct = distinct command texts",
    "trusted_base": [KERNEL, AXIOMS, TIE, EXTRACT, "u64 milliseconds modelled as Nat (no_u64_overflow covers values below 2^62 ms)", "str::split_whitespace / str::parse::<u64> modelled by digitsVal/parseU64 over List Char"],
    "assumptions": ["clock values below 2^62 ms", "hook verif_go_budget observes the parameters handle_go_command hands to find_best_move"],
    "finding_key": lambda sf: None,
}
