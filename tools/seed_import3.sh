#!/bin/bash
# seed_import2.sh Cxx a|b  — third round: /tmp/seedout3/Cxx/{a,b} -> /verif/seeded/Cxx{c,d}; verified in /tmp/seed3/Cxx
P=$1; X=$2
case $X in a) Y=e;; b) Y=f;; esac
SRC=/tmp/seedout3/$P/$X; DST=/verif/seeded/$P$Y
mkdir -p $DST
for f in $SRC/*; do [ -f "$f" ] && cp "$f" $DST/; done
rm -f $DST/suite.log $DST/suite_patched.log $DST/full_suite.log
/verif/tools/seed_verify.sh $DST /tmp/seed3/$P > $DST/verify.json 2> /dev/null
rm -f $DST/.suite.log
[ -f $DST/.demo_clean.log ] && mv $DST/.demo_clean.log $DST/demo_clean.log
[ -f $DST/.demo_patched.log ] && mv $DST/.demo_patched.log $DST/demo_patched.log
echo "$P$Y $(cat $DST/verify.json)"
