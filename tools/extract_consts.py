#!/usr/bin/env python3
"""
Translator for DATA: reads /repo/src/*.rs and regenerates lean/Flounder/Gen/*.lean.

Everything that is a table or a numeric constant in the Rust source is extracted mechanically on
every run (DESIGN.md section 2a).  The extractor understands
    (pub)? (const|static) NAME : T = <expr> ;
with integer literals (dec/hex, `_` separators, type suffixes), `<<`, `|`, `+`, `-` (unary and binary),
`as T` casts (to i8/i16/i32/i64/u8/u64/usize), `iN::MIN/MAX`, references to earlier constants in the
same file or imported ones, parentheses, and nested array literals.  A handful of literals that live
inside function bodies (uci.rs reserve/divisor/default depth, the start position bitboards, table sizes
512/4096) are extracted with anchored regular expressions.

FAILS CLOSED: anything it cannot parse raises, the caller reports a broken tie (never a pass).
Files are only rewritten when their content changes so that `lake` re-checks exactly what depends on a
changed constant.
"""
import re
import sys
import os

REPO = os.environ.get("FLOUNDER_REPO", "/repo")
OUT = os.path.join(os.path.dirname(os.path.abspath(__file__)), "..", "lean", "Flounder", "Gen")


class ExtractError(Exception):
    pass


def strip_comments(src: str) -> str:
    src = re.sub(r"/\*.*?\*/", " ", src, flags=re.S)
    src = re.sub(r"//[^\n]*", " ", src)
    return src


TOK = re.compile(r"\s*(0x[0-9a-fA-F_]+|[0-9][0-9_]*|[A-Za-z_][A-Za-z0-9_]*(?:::[A-Za-z_][A-Za-z0-9_]*)*|<<|>>|[\[\](),|+\-*/&^!;])")
INT_SUFFIX = re.compile(r"(u8|u16|u32|u64|u128|usize|i8|i16|i32|i64|i128|isize)$")
BITS = {"i8": 8, "i16": 16, "i32": 32, "i64": 64, "u8": 8, "u16": 16, "u32": 32, "u64": 64, "usize": 64, "isize": 64}


def tokenize(s):
    toks = []
    pos = 0
    s = s.strip()
    while pos < len(s):
        m = TOK.match(s, pos)
        if not m:
            raise ExtractError(f"cannot tokenize near: {s[pos:pos+40]!r}")
        toks.append(m.group(1))
        pos = m.end()
        while pos < len(s) and s[pos].isspace():
            pos += 1
    return toks


def cast(v, ty):
    if ty not in BITS:
        raise ExtractError(f"unsupported cast type {ty}")
    n = BITS[ty]
    v &= (1 << n) - 1
    if ty.startswith("i") and v >= 1 << (n - 1):
        v -= 1 << n
    return v


class Parser:
    def __init__(self, toks, env, ty=None):
        self.t = toks
        self.i = 0
        self.env = env
        self.ty = ty  # element scalar type, for wrap-around of << on u64

    def peek(self):
        return self.t[self.i] if self.i < len(self.t) else None

    def eat(self, x=None):
        tok = self.peek()
        if tok is None or (x is not None and tok != x):
            raise ExtractError(f"expected {x!r}, got {tok!r}")
        self.i += 1
        return tok

    def expr(self):
        return self.p_or()

    def p_or(self):
        v = self.p_shift()
        while self.peek() == "|":
            self.eat()
            v = v | self.p_shift()
        return v

    def p_shift(self):
        v = self.p_add()
        while self.peek() in ("<<", ">>"):
            op = self.eat()
            r = self.p_add()
            v = (v << r) if op == "<<" else (v >> r)
            if self.ty in ("u64", "Bitboard"):
                if v >= 1 << 64:
                    raise ExtractError("constant shift overflows u64 (rustc would reject it)")
        return v

    def p_add(self):
        v = self.p_cast()
        while self.peek() in ("+", "-"):
            op = self.eat()
            r = self.p_cast()
            v = v + r if op == "+" else v - r
        return v

    def p_cast(self):
        v = self.p_unary()
        while self.peek() == "as":
            self.eat()
            v = cast(v, self.eat())
        return v

    def p_unary(self):
        if self.peek() == "-":
            self.eat()
            return -self.p_unary()
        return self.p_atom()

    def p_atom(self):
        tok = self.peek()
        if tok is None:
            raise ExtractError("unexpected end of expression")
        if tok == "(":
            self.eat()
            v = self.expr()
            self.eat(")")
            return v
        if tok == "[":
            self.eat()
            items = []
            while self.peek() != "]":
                items.append(self.expr())
                if self.peek() == ",":
                    self.eat()
            self.eat("]")
            return items
        self.eat()
        if tok[0].isdigit():
            t = tok.replace("_", "")
            if t.startswith("0x"):
                # a hex literal cannot carry a textual suffix we need to strip unless it ends in e.g. u64
                m = re.match(r"0x([0-9a-fA-F]+?)(u8|u16|u32|u64|usize|i8|i16|i32|i64)?$", t)
                if not m:
                    raise ExtractError(f"bad hex literal {tok}")
                return int(m.group(1), 16)
            m = INT_SUFFIX.search(t)
            if m:
                t = t[: m.start()]
            return int(t)
        m = re.match(r"(i8|i16|i32|i64|u8|u16|u32|u64)::(MIN|MAX)$", tok)
        if m:
            n = BITS[m.group(1)]
            signed = m.group(1).startswith("i")
            if m.group(2) == "MAX":
                return (1 << (n - 1)) - 1 if signed else (1 << n) - 1
            return -(1 << (n - 1)) if signed else 0
        if tok in self.env:
            return self.env[tok]
        raise ExtractError(f"unknown identifier {tok!r} in constant expression")


CONST_RE = re.compile(r"(?:pub\s+)?(?:const|static)\s+([A-Z][A-Z0-9_]*)\s*:\s*([^=]+?)\s*=\s*(.*?);", re.S)


def consts_of(fname, env):
    """parse every top-level const/static of a file, in order; returns dict name -> value"""
    src = strip_comments(open(os.path.join(REPO, "src", fname)).read())
    out = {}
    for m in CONST_RE.finditer(src):
        name, ty, body = m.group(1), m.group(2).strip(), m.group(3)
        scalar = re.sub(r"[\[\];\s0-9A-Z_a-z]*?\b(u64|Bitboard|i32|i8|usize|u8|Square|PST)\b.*", r"\1", ty, count=1, flags=re.S)
        p = Parser(tokenize(body), {**env, **out}, scalar)
        v = p.expr()
        if p.peek() is not None:
            raise ExtractError(f"{fname}:{name}: trailing tokens {p.t[p.i:p.i+5]}")
        out[name] = v
    return out


def need(d, *names):
    for n in names:
        if n not in d:
            raise ExtractError(f"constant {n} not found in source")
    return [d[n] for n in names]


def one(pattern, src, what, flags=0):
    ms = re.findall(pattern, src, flags)
    if len(ms) != 1:
        raise ExtractError(f"expected exactly one match for {what}, found {len(ms)}")
    return ms[0]


def lean_int(v):
    return str(v) if v >= 0 else f"({v})"


def lean_list(vs, per=8):
    if vs and isinstance(vs[0], list):
        return "[\n" + ",\n".join("  " + lean_list(x) for x in vs) + "]"
    return "[" + ", ".join(lean_int(v) for v in vs) + "]"


def write_if_changed(path, text):
    try:
        if open(path).read() == text:
            return False
    except FileNotFoundError:
        pass
    os.makedirs(os.path.dirname(path), exist_ok=True)
    with open(path, "w") as f:
        f.write(text)
    return True


HEADER = "/- GENERATED by tools/extract_consts.py from {src} -- do not edit; regenerated on every run. -/\nnamespace Flounder.Gen\n\n"


def gen_bitboard():
    changed = []
    # ---------------------------------------------------------------- moves.rs / square.rs / bitboard.rs
    mv = consts_of("moves.rs", {})
    NORTH, EAST, SOUTH, WEST = need(mv, "NORTH", "EAST", "SOUTH", "WEST")
    sq = consts_of("square.rs", {})
    sqnames = ["A1", "C1", "D1", "E1", "F1", "G1", "H1", "A8", "C8", "D8", "E8", "F8", "G8", "H8"]
    need(sq, *sqnames)
    bbc = consts_of("bitboard.rs", {**mv, **sq})
    bbnames = ["SQUARES"] + [f"RANK_{i}" for i in range(1, 9)] + [f"FILE_{c}" for c in "ABCDEFGH"] + [
        "WHITE_KING_SIDE", "WHITE_QUEEN_SIDE", "BLACK_KING_SIDE", "BLACK_QUEEN_SIDE"]
    need(bbc, *bbnames)
    t = HEADER.format(src="src/moves.rs, src/square.rs, src/bitboard.rs")
    for n in ["NORTH", "EAST", "SOUTH", "WEST"]:
        t += f"def {n} : Int := {lean_int(mv[n])}\n"
    for n in sqnames:
        t += f"def {n} : Nat := {sq[n]}\n"
    for n in bbnames:
        t += f"def {n} : Nat := {bbc[n]}\n"
    # literal square lists of is_legal_castle and the G1/G8 choice
    mg = strip_comments(open(os.path.join(REPO, "src", "move_gen.rs")).read())
    m = re.search(r"Color::White\s*=>\s*\(\s*G1\s*,\s*vec!\[([0-9, ]+)\]\s*,\s*vec!\[([0-9, ]+)\]\s*\)\s*,\s*Color::Black\s*=>\s*\(\s*G8\s*,\s*vec!\[([0-9, ]+)\]\s*,\s*vec!\[([0-9, ]+)\]\s*\)", mg)
    if not m:
        raise ExtractError("is_legal_castle square lists not found in move_gen.rs")
    for name, g in zip(["CASTLE_CHECK_WK", "CASTLE_CHECK_WQ", "CASTLE_CHECK_BK", "CASTLE_CHECK_BQ"], m.groups()):
        t += f"def {name} : List Nat := [{', '.join(x.strip() for x in g.split(',') if x.strip())}]\n"
    # start position (board.rs Position::default)
    bs = strip_comments(open(os.path.join(REPO, "src", "board.rs")).read())
    for pn in ["Pawn", "Knight", "Bishop", "Rook", "Queen", "King"]:
        v = one(r"pieces\[Piece::%s\]\s*=\s*(0x[0-9a-fA-F_]+)\s*;" % pn, bs, f"start {pn}")
        t += f"def START_{pn.upper()} : Nat := {int(v.replace('_',''),16)}\n"
    for cn in ["White", "Black"]:
        v = one(r"colors\[Color::%s\]\s*=\s*(0x[0-9a-fA-F_]+)\s*;" % cn, bs, f"start {cn}")
        t += f"def START_{cn.upper()} : Nat := {int(v.replace('_',''),16)}\n"
    t += "\nend Flounder.Gen\n"
    if write_if_changed(os.path.join(OUT, "Bitboard.lean"), t):
        changed.append("Bitboard")


    return changed, bbc

def gen_magic(bbc):
    changed = []
    # ---------------------------------------------------------------- magic.rs
    mg_c = consts_of("magic.rs", bbc)
    RRB, BRB, RM, BM = need(mg_c, "ROOK_RELEVANT_BITS", "BISHOP_RELEVANT_BITS", "ROOK_MAGICS", "BISHOP_MAGICS")
    for nme, arr in (("ROOK_RELEVANT_BITS", RRB), ("BISHOP_RELEVANT_BITS", BRB), ("ROOK_MAGICS", RM), ("BISHOP_MAGICS", BM)):
        if len(arr) != 64:
            raise ExtractError(f"{nme} does not have 64 entries")
    ms = strip_comments(open(os.path.join(REPO, "src", "magic.rs")).read())
    bsz = one(r"Piece::Bishop\s*=>\s*\(0\.\.64\)\s*\.map\(\|_\|\s*vec!\[0;\s*([0-9_]+)\]\)", ms, "bishop table size")
    rsz = one(r"_\s*=>\s*\(0\.\.64\)\s*\.map\(\|_\|\s*vec!\[0;\s*([0-9_]+)\]\)", ms, "rook table size")
    t = HEADER.format(src="src/magic.rs")
    t += f"def ROOK_RELEVANT_BITS : List Nat := {lean_list(RRB)}\n"
    t += f"def BISHOP_RELEVANT_BITS : List Nat := {lean_list(BRB)}\n"
    t += f"def ROOK_MAGICS : List Nat := {lean_list(RM)}\n"
    t += f"def BISHOP_MAGICS : List Nat := {lean_list(BM)}\n"
    t += f"def ROOK_TABLE_SIZE : Nat := {int(rsz.replace('_',''))}\n"
    t += f"def BISHOP_TABLE_SIZE : Nat := {int(bsz.replace('_',''))}\n"
    t += "\nend Flounder.Gen\n"
    if write_if_changed(os.path.join(OUT, "Magic.lean"), t):
        changed.append("Magic")


    return changed

def gen_eval(bbc):
    changed = []
    # ---------------------------------------------------------------- eval.rs
    pc = consts_of("pieces.rs", {})
    ev = consts_of("eval.rs", {**bbc, **pc})
    OT, ET, PI = need(ev, "OPENING_TABLES", "ENDGAME_TABLES", "PHASE_INCREMENTS")
    if len(OT) != 6 or len(ET) != 6 or len(PI) != 6 or any(len(x) != 64 for x in OT + ET):
        raise ExtractError("PST tables have unexpected shape")
    es = strip_comments(open(os.path.join(REPO, "src", "eval.rs")).read())
    cap = one(r"self\.gamephase\.min\(([0-9_]+)\)", es, "phase cap")
    cap2 = one(r"let\s+endgame_phase\s*=\s*([0-9_]+)\s*-\s*opening_phase", es, "phase total")
    div = one(r"self\.endgame_score\s*\*\s*endgame_phase\)\s*/\s*([0-9_]+)", es, "phase divisor")
    flip = one(r"if\s+color\s*==\s*Color::White\s*\{\s*bit\s*\^\s*([0-9_]+)\s*\}\s*else\s*\{\s*bit\s*\}", es, "white flip")
    flip2 = one(r"if\s+opp_color\s*==\s*Color::White\s*\{\s*bit\s*\^\s*([0-9_]+)\s*\}\s*else\s*\{\s*bit\s*\}", es, "white flip (opp)")
    t = HEADER.format(src="src/eval.rs")
    t += f"def OPENING_TABLES : List (List Int) := {lean_list(OT)}\n"
    t += f"def ENDGAME_TABLES : List (List Int) := {lean_list(ET)}\n"
    t += f"def PHASE_INCREMENTS : List Int := {lean_list(PI)}\n"
    t += f"def PHASE_CAP : Int := {int(cap)}\n"
    t += f"def PHASE_TOTAL : Int := {int(cap2)}\n"
    t += f"def PHASE_DIV : Int := {int(div)}\n"
    t += f"def FLIP_PLAYER : Nat := {int(flip)}\n"
    t += f"def FLIP_OPP : Nat := {int(flip2)}\n"
    t += "\nend Flounder.Gen\n"
    if write_if_changed(os.path.join(OUT, "Eval.lean"), t):
        changed.append("Eval")


    return changed

def gen_search():
    changed = []
    # ---------------------------------------------------------------- search.rs / killer_moves.rs / uci.rs
    se = consts_of("search.rs", {})
    NI, INF, CM, MVV = need(se, "NEGATIVE_INFINITY", "INFINITY", "CHECKMATE_SCORE", "MVV_LVA_SCORES")
    if len(MVV) != 6 or any(len(r) != 6 for r in MVV):
        raise ExtractError("MVV_LVA_SCORES shape")
    km = consts_of("killer_moves.rs", {})
    MD, KPP = need(km, "MAX_DEPTH", "KILLERS_PER_PLY")
    ss = strip_comments(open(os.path.join(REPO, "src", "search.rs")).read())
    okeys = {}
    okeys["ORDER_TT"] = one(r"if\s+\*mv\s*==\s*best_move\s*\{\s*return\s+(i32::MIN)\s*;", ss, "tt key")
    okeys["ORDER_CAPTURE_BASE"] = one(r"return\s+-\(score\s+as\s+i32\)\s*-\s*([0-9_]+)\s*;", ss, "capture base")
    okeys["ORDER_KILLER"] = one(r"is_killer\(mv,\s*ply\)\s*\{\s*return\s+(-?[0-9_]+)\s*;", ss, "killer key")
    okeys["ORDER_PROMO"] = one(r"MoveType::Promotion\s*\{\s*return\s+(-?[0-9_]+)\s*;", ss, "promotion key")
    okeys["ORDER_EP_Q"] = one(r"MoveType::EnPassant\s*\{\s*return\s+(-?[0-9_]+)\s*;", ss, "ep quiescence key")
    t = HEADER.format(src="src/search.rs, src/killer_moves.rs")
    t += f"def NEGATIVE_INFINITY : Int := {lean_int(NI)}\n"
    t += f"def INFINITY : Int := {lean_int(INF)}\n"
    t += f"def CHECKMATE_SCORE : Int := {lean_int(CM)}\n"
    t += f"def MVV_LVA_SCORES : List (List Int) := {lean_list(MVV)}\n"
    t += f"def MAX_DEPTH : Nat := {MD}\n"
    t += f"def KILLERS_PER_PLY : Nat := {KPP}\n"
    t += f"def ORDER_TT : Int := {lean_int(-(1 << 31))}\n"
    t += f"def ORDER_CAPTURE_BASE : Int := {int(okeys['ORDER_CAPTURE_BASE'].replace('_',''))}\n"
    t += f"def ORDER_KILLER : Int := {lean_int(int(okeys['ORDER_KILLER'].replace('_','')))}\n"
    t += f"def ORDER_PROMO : Int := {lean_int(int(okeys['ORDER_PROMO'].replace('_','')))}\n"
    t += f"def ORDER_EP_Q : Int := {lean_int(int(okeys['ORDER_EP_Q'].replace('_','')))}\n"
    t += "\nend Flounder.Gen\n"
    if write_if_changed(os.path.join(OUT, "Search.lean"), t):
        changed.append("Search")

    return changed

def gen_uci():
    changed = []
    us = strip_comments(open(os.path.join(REPO, "src", "uci.rs")).read())
    reserve = one(r"let\s+reserve\s*=\s*([0-9_]+)\s*;", us, "reserve")
    divisor = one(r"let\s+base_time\s*=\s*available\s*/\s*([0-9_]+)\s*;", us, "divisor")
    ddepth = one(r"let\s+mut\s+depth\s*=\s*([0-9_]+)\s*;", us, "default depth")
    dmin = one(r"depth\s*=\s*d\.min\(([0-9_]+)\)\s*;", us, "depth cap")
    dinf = one(r"\"infinite\"\s*=>\s*\{\s*depth\s*=\s*([0-9_]+)\s*;", us, "infinite depth")
    margin = one(r"\(base_time\s*\+\s*increment\)\s*\.min\(time_left\.saturating_sub\(([0-9_]+)\)\)", us, "budget margin")
    skip = one(r"time_limit\s*=\s*self\.calculate_move_time\(parts,\s*i\)\s*;\s*i\s*\+=\s*([0-9_]+)\s*;", us, "clock skip")
    t = HEADER.format(src="src/uci.rs")
    t += f"def GO_RESERVE : Nat := {int(reserve.replace('_',''))}\n"
    t += f"def GO_DIVISOR : Nat := {int(divisor.replace('_',''))}\n"
    t += f"def GO_DEFAULT_DEPTH : Nat := {int(ddepth.replace('_',''))}\n"
    t += f"def GO_DEPTH_CAP : Nat := {int(dmin.replace('_',''))}\n"
    t += f"def GO_INFINITE_DEPTH : Nat := {int(dinf.replace('_',''))}\n"
    t += f"def GO_MARGIN : Nat := {int(margin.replace('_',''))}\n"
    t += f"def GO_CLOCK_SKIP : Nat := {int(skip.replace('_',''))}\n"
    t += "\nend Flounder.Gen\n"
    if write_if_changed(os.path.join(OUT, "Uci.lean"), t):
        changed.append("Uci")

    return changed

def gen_fen():
    changed = []
    fs = strip_comments(open(os.path.join(REPO, "src", "fen.rs")).read())
    hm_ty = one(r"fn\s+parse_halfmove_clock\([^)]*\)\s*->\s*(u8|u16|u32|u64)", fs, "halfmove type")
    fm_ty = one(r"fn\s+parse_fullmove_counter\([^)]*\)\s*->\s*(u8|u16|u32|u64)", fs, "fullmove type")
    t = HEADER.format(src="src/fen.rs")
    t += f"def FEN_HALFMOVE_BOUND : Nat := {1 << BITS[hm_ty]}\n"
    t += f"def FEN_FULLMOVE_BOUND : Nat := {1 << BITS[fm_ty]}\n"
    t += "\nend Flounder.Gen\n"
    if write_if_changed(os.path.join(OUT, "Fen.lean"), t):
        changed.append("Fen")

    return changed

def main():
    """every Gen file is produced by its own section; a section that cannot parse its source FAILS CLOSED for that file only
    (the previous Gen file stays in place, the failure is recorded in Gen/.status.json and reported by ./check for every
    property whose Lean modules import that file)."""
    import json
    changed, failed = [], {}
    bbc = None
    try:
        ch, bbc = gen_bitboard()
        changed += ch
    except ExtractError as e:
        failed["Bitboard"] = str(e)
    for name, fn, needs_bbc in (("Magic", gen_magic, True), ("Eval", gen_eval, True), ("Search", gen_search, False), ("Uci", gen_uci, False), ("Fen", gen_fen, False)):
        try:
            if needs_bbc and bbc is None:
                raise ExtractError("depends on the constants of bitboard.rs / square.rs / moves.rs, which could not be extracted")
            changed += fn(bbc) if needs_bbc else fn()
        except ExtractError as e:
            failed[name] = str(e)
        except (OSError, KeyError, ValueError, IndexError) as e:
            failed[name] = f"{type(e).__name__}: {e}"
    with open(os.path.join(OUT, ".status.json"), "w") as f:
        json.dump({"failed": failed, "changed": changed}, f)
    if failed:
        print("extract_consts: FAILED for " + "; ".join(f"Gen.{k}: {v}" for k, v in failed.items()) + " | regenerated: " + (",".join(changed) or "(nothing)"))
        sys.exit(3)
    print("extract_consts: ok; regenerated:", ",".join(changed) if changed else "(nothing changed)")


if __name__ == "__main__":
    main()
