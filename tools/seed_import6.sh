#!/bin/bash
# seed_import5.sh Cxx [letter]  — sixth round: /tmp/seedout6/Cxx -> /verif/seeded/Cxx<letter, default h>; verified in /tmp/seed4/Cxx
P=$1; Y=${2:-i}
SRC=/tmp/seedout6/$P; DST=/verif/seeded/$P$Y
mkdir -p $DST
for f in patch.diff demo.diff run_demo.sh notes.md; do [ -f "$SRC/$f" ] && cp "$SRC/$f" $DST/; done
/verif/tools/seed_verify.sh $DST /tmp/seed4/$P > $DST/verify.json 2> /dev/null
rm -f $DST/.suite.log
[ -f $DST/.demo_clean.log ] && mv $DST/.demo_clean.log $DST/demo_clean.log
[ -f $DST/.demo_patched.log ] && mv $DST/.demo_patched.log $DST/demo_patched.log
echo "$P$Y $(cat $DST/verify.json)"
