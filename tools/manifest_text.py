HOOK_COMMITS = []
NOT_APPLICABLE = {}
TEXT = {}
TEXT["C15"] = {
    "level_text": "Machine-checked refinement proof: for every sequence of store/retrieve operations, over any keys, depths, scores and bounds, the model of TranspositionTable answers exactly like the abstract map 'key -> record, deepest wins, ties replace' (tt_refines), never answers with another key's record in ANY table state (no_cross_key), and stored depth never decreases (depth_monotone_seq). Induction over the operation list, so no bound on length. The model is tied to the Rust code by a three-way differential run on every check.",
    "design_ref": "DESIGN.md section 6, C15",
    "level_note": "Trusted: Lean kernel; propext/Classical.choice/Quot.sound only; HashMap modelled as a finite map (Std.HashMap lemmas getElem?_insert); fidelity of the 20-line model to transposition.rs as far as the generated correspondence explores it.",
    "technique": "Lean 4 refinement proof by induction on operation sequences + differential correspondence (impl vs model vs spec)",
}
HOOK_COMMITS += ["ef90a68", "663b385", "3456f97", "6e85357", "b7bac30"]
TEXT["C14"] = {
    "level_text": "Machine-checked: the score returned by evaluate is a function of the board alone for every prior evaluator state and every order of calls on one evaluator (eval_pure, eval_calls, induction over the call list), never reads rights/ep/counters (eval_placement_only); antisymmetry under side flip, mirror invariance and the magnitude bound are separate theorem files (see evidence 'theorems' for which are discharged in this run). PST tables are re-extracted from eval.rs on every run.",
    "design_ref": "DESIGN.md section 6, C14",
    "level_note": "Trusted: Lean kernel, standard axioms, extractor, model fidelity as explored by the correspondence (valid + malformed boards, shared evaluator, flip/mirror relations compared against the spec column).",
    "technique": "Lean 4 theorems over an executable model of eval.rs (tables generated from source) + differential correspondence incl. flip/mirror relations",
}
TEXT["C11"] = {
    "level_text": "Machine-checked for every key table: same position => same hash whatever the counters or the path (hash_position_only, hash_ignores_counters); flipping the side XORs exactly the white-to-move key, so the hash changes when that key is non-zero (hash_flip_side, hash_side_changes); the literal 'iff for every key draw' is refuted by hash_not_injective (all-zero keys), which is why sensitivity carries KeysGood. hash = XOR of feature keys and the remaining single-component theorems are in Props/C11Xor.lean when discharged. Every real key draw in the run is checked for KeysGood.",
    "design_ref": "DESIGN.md section 6, C11",
    "level_note": "Trusted: Lean kernel, standard axioms, model fidelity (exact hash values compared under the engine's real drawn keys), thread_rng outside the model.",
    "technique": "Lean 4 theorems quantified over all key tables + differential correspondence under real key draws",
}
TEXT["C12"] = {
    "level_text": "Machine-checked for all clock/increment values: the budget is <= the mover's remaining time and < it whenever time remains (budget_le, budget_lt, calculated_budget_fits), reads only the mover's own two values (budget_white_own/black_own), cannot overflow u64 below 2^62 ms. The defect the property file names (budget above the clock when inc > time) was reproduced by this check and repaired by a fix: commit in /repo; the margin literal is re-extracted from uci.rs so removing the cap re-opens budget_lt. The token-loop theorem for all orders of the four pairs is in Props/C12Parse.lean when discharged.",
    "design_ref": "DESIGN.md section 6, C12",
    "level_note": "Trusted: Lean kernel, standard axioms, extractor, parser model fidelity as explored by the correspondence through the real parser hook.",
    "technique": "Lean 4 arithmetic theorems over a model of the go token loops (constants generated from source) + differential correspondence through a parser hook",
}
HOOK_COMMITS += ["5add432", "99c3e00"]
TEXT["C01"] = {
    "level_text": "Full theorem stated (GenerateMovesExact), structural layers machine-checked, remaining layers open; decided per run by a three-way correspondence of the real generator, the Lean model and an executable FIDE-rules spec on thousands of valid positions incl. all hand-made special cases. Honest level: differential validation against a formal executable spec plus partial proof.",
    "design_ref": "DESIGN.md section 6, C01",
    "level_note": "Not yet a closed proof. Trusted: spec of the rules, correspondence generators (distribution printed in evidence), Lean kernel for the discharged lemmas.",
    "technique": "Lean 4 model + executable FIDE spec, three-way differential; partial Lean proof (layers)",
}
TEXT["C02"] = {
    "level_text": "Kernel-checked refinement theorem make_move_refines: for EVERY valid board and EVERY move legal under the rules, make_move does not panic and the resulting bitboards abstract exactly to the successor position of the rules (placement incl. captured man / en-passant victim / relocated rook / promoted piece, side to move, castling rights, en-passant target), and the result is valid again; valid_history and consistent_history lift this by induction to every finite sequence of legal moves (each square at most one piece of exactly one colour, exactly one king each). The model of board.rs is tied to the code by comparing complete boards after every ply of generated games (clone_with_move vs model vs Spec.play).",
    "design_ref": "DESIGN.md section 6, C02",
    "level_note": "Trusted: Lean kernel, standard axioms; Spec/Chess.lean (play, keepsRight, valid) as the meaning of the rules; u8/i8 square arithmetic modelled by Nat/Int (wrap-around only on invalid boards); model fidelity as explored by the correspondence.",
    "technique": "Lean 4 refinement proof (bitboard make_move vs mailbox rules) + induction over histories; three-way differential on games",
}
TEXT["C17"] = {
    "level_text": "Machine-checked that the quiescence selection is exactly filter(capture|promotion|check) of the generated moves and all of them when in check; the semantic half (engine check test = rules) is tied to C01/C02 and decided per position by the correspondence, including the list chosen inside search_until_quiet (hook).",
    "design_ref": "DESIGN.md section 6, C17",
    "level_note": "Trusted: as C01; hook observing the in-search selection.",
    "technique": "Lean 4 structural theorems + three-way differential incl. in-search observation",
}
TEXT["C10"] = {
    "level_text": "Kernel-checked theorem lookup_exact : Spec.LookupExact LookupTable.init — for every square and EVERY 64-bit occupancy the rook/bishop/queen lookups (mask, wrapping multiply by the magic, shift, table index) equal 'reachable along open lines up to and including the first blocker'; knight/king tables equal the geometric step patterns; segment and whole-line tables are exact for all 64x64 pairs (empty for non-aligned pairs). Proof: per square, a Nat-based checker enumerates every subset of the relevant mask inside the Lean kernel (no destructive collision, index in range, relevant bits = popcount of mask), a soundness lemma lifts it to all 2^64 occupancies (bits off the mask provably do not matter), plus build-loop invariant (last write wins) and geometric characterisation of the ray walks. Magics, relevant bits and table sizes are re-extracted from magic.rs on every run, so a changed constant re-opens the 128 kernel facts. The exhaustive engine-vs-model-vs-spec table dump ties the model to the code.",
    "design_ref": "DESIGN.md section 6, C10",
    "level_note": "Trusted: Lean kernel (decide +kernel = kernel evaluation, no native_decide), propext/Classical.choice/Quot.sound, extractor, and the model's fidelity to magic.rs/lookup.rs as checked exhaustively over all table entries on every run.",
    "technique": "Lean 4 kernel enumeration per square (decide +kernel) + soundness lemma to all 2^64 occupancies; exhaustive table correspondence",
}
