HOOK_COMMITS = []
NOT_APPLICABLE = {}
TEXT = {}
TEXT["C15"] = {
    "level_text": "Machine-checked refinement proof: for every sequence of store/retrieve operations, over any keys, depths, scores and bounds, the model of TranspositionTable answers exactly like the abstract map 'key -> record, deepest wins, ties replace' (tt_refines), never answers with another key's record in ANY table state (no_cross_key), and stored depth never decreases (depth_monotone_seq). Induction over the operation list, so no bound on length. The model is tied to the Rust code by a three-way differential run on every check.",
    "design_ref": "DESIGN.md section 6, C15",
    "level_note": "Trusted: Lean kernel; propext/Classical.choice/Quot.sound only; HashMap modelled as a finite map (Std.HashMap lemmas getElem?_insert); fidelity of the 20-line model to transposition.rs as far as the generated correspondence explores it.",
    "technique": "Lean 4 refinement proof by induction on operation sequences + differential correspondence (impl vs model vs spec)",
}
