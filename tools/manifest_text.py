HOOK_COMMITS = []
NOT_APPLICABLE = {}
TEXT = {}
TEXT["C15"] = {
    "level_text": "Machine-checked refinement proof: for every sequence of store/retrieve operations, over any keys, depths, scores and bounds, the model of TranspositionTable answers exactly like the abstract map 'key -> record, deepest wins, ties replace' (tt_refines), never answers with another key's record in ANY table state (no_cross_key), and stored depth never decreases (depth_monotone_seq). Induction over the operation list, so no bound on length. The model is tied to the Rust code by a three-way differential run on every check.",
    "design_ref": "DESIGN.md section 6, C15",
    "level_note": "Trusted: Lean kernel; propext/Classical.choice/Quot.sound only; HashMap modelled as a finite map (Std.HashMap lemmas getElem?_insert); fidelity of the 20-line model to transposition.rs as far as the generated correspondence explores it.",
    "technique": "Lean 4 refinement proof by induction on operation sequences + differential correspondence (impl vs model vs spec)",
}
HOOK_COMMITS += ["ef90a68", "663b385", "3456f97", "6e85357", "b7bac30"]
TEXT["C14"] = {
    "level_text": "Machine-checked: the score returned by evaluate is a function of the board alone for every prior evaluator state and every order of calls on one evaluator (eval_pure, eval_calls, induction over the call list), never reads rights/ep/counters (eval_placement_only); antisymmetry under side flip, mirror invariance and the magnitude bound are separate theorem files (see evidence 'theorems' for which are discharged in this run). PST tables are re-extracted from eval.rs on every run.",
    "design_ref": "DESIGN.md section 6, C14",
    "level_note": "Trusted: Lean kernel, standard axioms, extractor, model fidelity as explored by the correspondence (valid + malformed boards, shared evaluator, flip/mirror relations compared against the spec column).",
    "technique": "Lean 4 theorems over an executable model of eval.rs (tables generated from source) + differential correspondence incl. flip/mirror relations",
}
TEXT["C11"] = {
    "level_text": "Machine-checked for every key table: same position => same hash whatever the counters or the path (hash_position_only, hash_ignores_counters); flipping the side XORs exactly the white-to-move key, so the hash changes when that key is non-zero (hash_flip_side, hash_side_changes); the literal 'iff for every key draw' is refuted by hash_not_injective (all-zero keys), which is why sensitivity carries KeysGood. hash = XOR of feature keys and the remaining single-component theorems are in Props/C11Xor.lean when discharged. Every real key draw in the run is checked for KeysGood.",
    "design_ref": "DESIGN.md section 6, C11",
    "level_note": "Trusted: Lean kernel, standard axioms, model fidelity (exact hash values compared under the engine's real drawn keys), thread_rng outside the model.",
    "technique": "Lean 4 theorems quantified over all key tables + differential correspondence under real key draws",
}
TEXT["C12"] = {
    "level_text": "Machine-checked for all clock/increment values: the budget is <= the mover's remaining time and < it whenever time remains (budget_le, budget_lt, calculated_budget_fits), reads only the mover's own two values (budget_white_own/black_own), cannot overflow u64 below 2^62 ms. The defect the property file names (budget above the clock when inc > time) was reproduced by this check and repaired by a fix: commit in /repo; the margin literal is re-extracted from uci.rs so removing the cap re-opens budget_lt. The token-loop theorem for all orders of the four pairs is in Props/C12Parse.lean when discharged.",
    "design_ref": "DESIGN.md section 6, C12",
    "level_note": "Trusted: Lean kernel, standard axioms, extractor, parser model fidelity as explored by the correspondence through the real parser hook.",
    "technique": "Lean 4 arithmetic theorems over a model of the go token loops (constants generated from source) + differential correspondence through a parser hook",
}
HOOK_COMMITS += ["5add432", "99c3e00"]
TEXT["C01"] = {
    "level_text": "Full theorem stated (GenerateMovesExact), structural layers machine-checked, remaining layers open; decided per run by a three-way correspondence of the real generator, the Lean model and an executable FIDE-rules spec on thousands of valid positions incl. all hand-made special cases. Honest level: differential validation against a formal executable spec plus partial proof.",
    "design_ref": "DESIGN.md section 6, C01",
    "level_note": "Not yet a closed proof. Trusted: spec of the rules, correspondence generators (distribution printed in evidence), Lean kernel for the discharged lemmas.",
    "technique": "Lean 4 model + executable FIDE spec, three-way differential; partial Lean proof (layers)",
}
TEXT["C02"] = {
    "level_text": "Kernel-checked refinement theorem make_move_refines: for EVERY valid board and EVERY move legal under the rules, make_move does not panic and the resulting bitboards abstract exactly to the successor position of the rules (placement incl. captured man / en-passant victim / relocated rook / promoted piece, side to move, castling rights, en-passant target), and the result is valid again; valid_history and consistent_history lift this by induction to every finite sequence of legal moves (each square at most one piece of exactly one colour, exactly one king each). The model of board.rs is tied to the code by comparing complete boards after every ply of generated games (clone_with_move vs model vs Spec.play).",
    "design_ref": "DESIGN.md section 6, C02",
    "level_note": "Trusted: Lean kernel, standard axioms; Spec/Chess.lean (play, keepsRight, valid) as the meaning of the rules; u8/i8 square arithmetic modelled by Nat/Int (wrap-around only on invalid boards); model fidelity as explored by the correspondence.",
    "technique": "Lean 4 refinement proof (bitboard make_move vs mailbox rules) + induction over histories; three-way differential on games",
}
TEXT["C17"] = {
    "level_text": "Machine-checked that the quiescence selection is exactly filter(capture|promotion|check) of the generated moves and all of them when in check; the semantic half (engine check test = rules) is tied to C01/C02 and decided per position by the correspondence, including the list chosen inside search_until_quiet (hook).",
    "design_ref": "DESIGN.md section 6, C17",
    "level_note": "Trusted: as C01; hook observing the in-search selection.",
    "technique": "Lean 4 structural theorems + three-way differential incl. in-search observation",
}
TEXT["C10"] = {
    "level_text": "Kernel-checked theorem lookup_exact : Spec.LookupExact LookupTable.init — for every square and EVERY 64-bit occupancy the rook/bishop/queen lookups (mask, wrapping multiply by the magic, shift, table index) equal 'reachable along open lines up to and including the first blocker'; knight/king tables equal the geometric step patterns; segment and whole-line tables are exact for all 64x64 pairs (empty for non-aligned pairs). Proof: per square, a Nat-based checker enumerates every subset of the relevant mask inside the Lean kernel (no destructive collision, index in range, relevant bits = popcount of mask), a soundness lemma lifts it to all 2^64 occupancies (bits off the mask provably do not matter), plus build-loop invariant (last write wins) and geometric characterisation of the ray walks. Magics, relevant bits and table sizes are re-extracted from magic.rs on every run, so a changed constant re-opens the 128 kernel facts. The exhaustive engine-vs-model-vs-spec table dump ties the model to the code.",
    "design_ref": "DESIGN.md section 6, C10",
    "level_note": "Trusted: Lean kernel (decide +kernel = kernel evaluation, no native_decide), propext/Classical.choice/Quot.sound, extractor, and the model's fidelity to magic.rs/lookup.rs as checked exhaustively over all table entries on every run.",
    "technique": "Lean 4 kernel enumeration per square (decide +kernel) + soundness lemma to all 2^64 occupancies; exhaustive table correspondence",
}
HOOK_COMMITS += ["cc9fdf9", "419f76c"]
TEXT["C01"] = {
    "level_text": "Kernel-checked theorem generate_moves_exact : for EVERY valid position (consistent bitboards, one king each, side not to move not in check, no pawns on ranks 1/8, castling flags and ep square consistent) the list produced by the model of generate_moves has no duplicates and contains exactly the moves that are legal under the FIDE rules as stated in Spec/Chess.lean (castling, en passant, promotions, pins, checks, double checks), and is_in_check is the rules' check test. Proof layers: table exactness (C10, all occupancies), attack sets / king moves / castling (Lemmas/Attacks*), the seven pseudo-legal generators (Lemmas/Pseudo*), pins-checkers-en-passant filter (Lemmas/Filter*). The model is tied to move_gen.rs by the three-way correspondence (engine vs model vs executable rules) on every run.",
    "design_ref": "DESIGN.md section 6, C01",
    "level_note": "Trusted: Lean kernel (incl. decide +kernel for finite geometric facts), standard axioms, the rules spec, model fidelity as explored by the correspondence (ordered move lists compared too).",
    "technique": "Lean 4 refinement proof (bitboard generator vs mailbox FIDE rules) + three-way differential",
}
TEXT["C17"] = {
    "level_text": "Kernel-checked theorem quiescence_moves_exact: for every valid position, the moves the search examines beyond its nominal depth are exactly the legal moves that capture (incl. en passant), promote or give check (directly or by discovery — the engine's is_check is proved equal to the rules' check test on the successor position), and every legal move when the side to move is in check. Tied to the code by comparing generate_quiescence_moves and the list recorded inside search_until_quiet with model and spec.",
    "design_ref": "DESIGN.md section 6, C17",
    "level_note": "Trusted: as C01/C02; hook observing the in-search selection.",
    "technique": "Lean 4 corollary of C01 + C02 + check-test exactness; three-way differential incl. in-search observation",
}
TEXT["C05"] = {
    "level_text": "Kernel-checked over an abstract game: quiesce_contract and negamax_contract (fail-soft alpha-beta with depth-gated bound table, ordering heuristics and fail-hard quiescence returns a result satisfying the alpha-beta contract w.r.t. plain minimax Spec.V and keeps every table record a true claim), order_is_permutation (ordering only permutes), find_best_move_value (iterative deepening from a sound table: reported score equals the minimax value inside the window and has the same won/lost class beyond it; the returned move is legal and attains the value). Hypotheses exactly as the property scopes them: completed search (no poll returned true), no record from a deeper search reused (instrumented), no hash collision on visited positions, finite quiescence. Two machine-checked counterexamples document why the window hypothesis and the class comparison are needed. The chess instance is tied to search.rs by comparing score, move, node counts, poll counts and a digest of the whole table after every search. Depth-ranked forms (find_best_move_value_ranked/_horizon) make the collision hypothesis satisfiable for real chess; chess_find_best_move_value instantiates it. Props/C05Range.lean: the score arithmetic of the whole search stays inside i32/u8 (negamax_in_range, find_best_move_in_range, searches_in_range from the fresh state) and a machine-integer copy of the search with wrapping arithmetic equals the Int model (find_best_move_i32_eq_int, uci_go_i32_eq_int), so modelling i32 by Int is faithful; the one way to break it (a cached i32::MIN) is exhibited.",
    "design_ref": "DESIGN.md section 6, C05",
    "level_note": "Trusted: Lean kernel, standard axioms; HashMap/Vec/stable sort modelled; HashInj and QFinite are hypotheses; model fidelity as explored (node-count-exact tie).",
    "technique": "Lean 4 soundness proof of alpha-beta + TT + iterative deepening vs minimax (induction on depth and move list) + node-count-exact differential",
}
TEXT["C06"] = {
    "level_text": "Kernel-checked for every deadline oracle (any poll may be the first to return true): the repetition stack after find_best_move is exactly what it was (repetition_balanced_findBestMove), every transposition-table store happens while no poll has yet returned true (interrupted_search_stores_nothing via a ghost-instrumented copy of the search proved equal to it), so with C05's contract every record left behind is the result of a completed sub-search; a search whose first poll is already true changes nothing at all. The defect named by the property file (interrupted node cached) was reproduced by this check on the pinned code and repaired by a fix: commit. Props/C06Full.lean: later_search_true_value — after ANY finite list of searches, each completed or interrupted at any poll, a later completed search satisfies the C05 conclusion (minimax value, legal value-attaining move) and the repetition stack is unchanged; negamax_preserves_ttsound / findBestMove_preserves_ttsound: the table stays sound on every run, interrupted or not. Props/C06Guard.lean: the model WITHOUT the post-loop guard of the fix: commit leaves a false record that makes the next completed search report -5 instead of 9 (unguarded_interruption_spoils_later_search), the guarded model answers 9 on the same sequence.",
    "design_ref": "DESIGN.md section 6, C06",
    "level_note": "Trusted: as C05; the clock is abstracted to the poll at which it first reports expiry.",
    "technique": "Lean 4 invariant proofs over all deadline oracles (ghost-state store log) + exhaustive node-budget sweep with table audit against minimax",
}
TEXT["C07"] = {
    "level_text": "Kernel-checked for every position, deadline and prior state: after the first poll that returns true no further node is entered (no_new_work_after_stop), the oracle is monotone along the run, every loop breaks at its next poll, and the number of polls after expiry is bounded by the recursion depth (bounded_unwinding). What a model cannot exhibit — the wall-clock cost of the unwinding and of the node in flight — is measured black-box on explosive positions against a fixed 400 ms bound. Props/C07Dense.lean: polls_dense — in every run at most 2 nodes are entered between two consecutive polls (before the first, after the last), the constant is attained; work_after_deadline — from any point at which the oracle has become true at most 2 nodes are entered in the rest of the run; node_budget_overshoot — under a deadline at the n-th node the whole search enters at most n + 1 nodes.",
    "design_ref": "DESIGN.md section 6, C07",
    "level_note": "Proof of the work bound; latency observed, not proved.",
    "technique": "Lean 4 invariant proof (no node after stop) + hook counters under every node/poll deadline + black-box latency",
}
TEXT["C08"] = {
    "level_text": "Kernel-checked over the abstract game: mate_in_one_played_of — from a fresh engine, for EVERY deadline oracle and every depth D >= 1 (D + INFINITY <= CHECKMATE_SCORE; the engine caps D at 64), a completed search answers with a checkmating move whenever one exists, under EvalBound (|eval| < INFINITY; for chess this is C14) and 'no root/child hash collision'; proved directly by an invariant over the iterations (mating move found at depth 1 because non-mating leaves stay inside the window, then re-found first through the table move at every deeper iteration). avoidable_mate_avoided_of — at depth 2 and 3, under the C05 hypotheses (no collision on the searched set, finite quiescence, no deeper record reused; no_deeper_reuse_of_ranked shows the last one holds on game trees) and EvalBound, the answer never allows a mate in one when some move avoids it; the depth-3 case holds because of iterative deepening (iterate_track). The bare statements without those hypotheses are refuted by machine-checked toy games (mate_in_one_needs_evalBound, mate_in_one_needs_no_collision, avoidable_mate_needs_evalBound), which is why the hypotheses are there. Every run: generated mate-in-one / mixed positions at depths 1..4, the engine's answers judged by the executable rules, model tied to the engine move for move.",
    "design_ref": "DESIGN.md section 6, C08",
    "level_note": 'Trusted: as C05; EvalBound for chess comes from C14 (eval_lt_infinity, <=16 men a side); hash-collision and finite-quiescence hypotheses are hypotheses.',
    "technique": 'Lean 4 invariant proof over the iterative-deepening loop + alpha-beta contract (C05) + rules-judged differential',
}
TEXT["C03"] = {
    "level_text": "Kernel-checked over the abstract game, for EVERY deadline oracle (incl. a zero budget), every depth (incl. 0) and every earlier history of searches: the transposition table only ever holds moves that are legal in the position they are stored for (tt_move_legal_invariant), the answer of find_best_move is a legal move of the position searched, and it is 'no move' exactly when the position has no legal move (bestmove_legal, bestmove_none_iff); handle_go prints exactly one bestmove line. With C01 'legal for the generator' is 'legal under the rules'. The zero-budget defect (bestmove 0000 with legal moves) was reproduced and repaired by a fix: commit. Black-box runs check the real binary's bestmove lines against the spec's legal-move sets incl. real clocks. ENGINE LEVEL (Props/C03Engine.lean): every_go_answered_legally — for every command script, the bestmove lines of the transcript are in order-preserving one-to-one correspondence with the go commands executed, each carries a move legal under the rules for the board set at that moment or 0000 exactly at mate/stalemate, and no other line starts with bestmove — whatever was searched earlier in the same process (engine invariant EngOK preserved by every command), under 'equal keys on visited boards imply equal move sets' (implied by collision-freeness) and validity of the boards set by FENs. CHESS LEVEL (Props/ChessSearch.lean): chess_bestmove_legal, chess_handleGo_bestmove. The hash hypothesis is stated on depth-ranked families (positions within D plies), which is satisfiable for real chess.",
    "design_ref": "DESIGN.md section 6, C03",
    "level_note": "Trusted: as C05; HashInj hypothesis (necessary: counterexample in the agent report recorded in DESIGN.md).",
    "technique": "Lean 4 invariant proof over all deadline oracles and histories + in-process deadline sweep + black-box scripts",
}
TEXT["C04"] = {
    "level_text": "Kernel-checked: fen_roundtrip (parsing the canonical FEN of any consistent board with counters below 65536 yields exactly that board), move-text resolution is unique on valid boards (resolve_unique_valid, from C01), and position_reconstructs_rules: for a valid start board and any move list legal under the rules, 'position fen <FEN> moves <UCI texts>' sets the engine's board — from ANY prior state — to the position prescribed by the rules (fold of Spec.play); same for startpos. Counters up to 65535 parse (the u8 abort on fullmove >= 256 was reproduced and repaired by a fix: commit; the field width is re-extracted from fen.rs).",
    "design_ref": "DESIGN.md section 6, C04",
    "level_note": "Trusted: Lean kernel, standard axioms, string functions modelled over List Char (ASCII white space), correspondence through hooks verif_handle_command / verif_board.",
    "technique": "Lean 4 parser round-trip + refinement through C01/C02 + differential on generated position commands",
}
TEXT["C09"] = {
    "level_text": "Kernel-checked: is_repetition is exactly 'at least two occurrences on the stack' (repetition_detects), a repeated position at ply > 0 is scored 0 before any table probe (draw_scored_zero), the position command clears the recorded history and records exactly the positions it passes through (position_records_history, only_last_position_counts), hence a successor that occurred twice in the game given with the last position command is scored as a draw and one that occurred fewer times is not (third_occurrence_is_draw, below_third_occurrence_no_draw). The defect named by the property file (history never recorded) was reproduced and repaired by a fix: commit.",
    "design_ref": "DESIGN.md section 6, C09",
    "level_note": "Trusted: as C04; statements are about hashes, equal to positions under HashInj.",
    "technique": "Lean 4 proofs over the engine model + differential through the engine's own searcher",
}
TEXT["C13"] = {
    "level_text": "Kernel-checked: search_key_independent — two processes that draw different hash keys print the SAME complete transcript (info lines with scores, node counts and pv, bestmove lines, outcome) for the same script, for every deadline oracle and fuel outcome, provided neither key stream collides on the boards the run hashes (visited: the boards of the position commands and the boards within D plies of the current board for a go of depth D); proved by a simulation between the two runs (tables agree through the position, repetition stacks position-wise equal, everything else equal) carried through quiescence, probe, negamax, iterate, find_best_move, position, go and the UCI loop; general form for key streams with the same collisions, and a form up to move counters (which the hash ignores). key_dependence_without_injectivity shows the hypothesis cannot be dropped; the first target statement (injective on ALL boards) is proved vacuous. ucinewgame_like_fresh_process / ucinewgame_like_new_process: after ucinewgame the rest of the transcript is that of a fresh process (any collision-free keys). Every run: the real binary in 3 fresh processes per script (independent key draws) must give identical transcripts equal to the model's transcript under the model's own keys; prefix + ucinewgame + suffix must equal a fresh process on the suffix.",
    "design_ref": "DESIGN.md section 6, C13",
    "level_note": "Trusted: as C05; 'no collision on the visited boards' is a hypothesis (probability remark in DESIGN.md C11); rand::thread_rng not modelled (theorems quantify over all key streams).",
    "technique": 'Lean 4 simulation proof between runs under different key tables (search + engine level) + multi-process black-box determinism check against the model transcript',
}
TEXT["C16"] = {
    "level_text": "Kernel-checked for every engine state: uci yields exactly the two id lines and uciok, isready yields readyok, a blank line or a line whose first token is not a command yields nothing and changes nothing (unknown_silent), quit ends the run with status 0 and later lines are ignored, and a run whose input ends terminates with status 0 (eof_exits_zero); transcripts compose. The end-of-input defect (infinite loop) was reproduced on the pinned binary and repaired by a fix: commit. The real binary is run on generated scripts and must match the model transcript and exit with status 0.",
    "design_ref": "DESIGN.md section 6, C16",
    "level_note": "Proof for the transcript logic; exit status and absence of a hang observed black-box.",
    "technique": "Lean 4 proofs over the UCI loop model + black-box transcript and exit-status comparison",
}
