#!/bin/bash
# seed_batch.sh <id>...   run the property's own quick check against each seeded change (sequential; /repo restored after each)
for id in "$@"; do
  d=/verif/seeded/$id
  p=${id:0:3}
  [ -f $d/meta.json ] || echo "{\"property\": \"$p\"}" > $d/meta.json
  /verif/tools/seed_run.py $d $p > $d/${OUTNAME:-result_quick.jsonl} 2>&1
  python3 - "$d" <<'PY'
import json,sys
d=sys.argv[1]
for l in open(d+"/"+__import__("os").environ.get("OUTNAME","result_quick.jsonl")):
    try: r=json.loads(l)
    except Exception: print(d, 'RAW', l.strip()[:200]); continue
    v=[x for x in r['lines'] if x.startswith('VIOLATION')]
    print(r['seed'], r['check'], 'rc=',r['rc'], (v[0] if v else 'NO VIOLATION')[:160])
PY
done
