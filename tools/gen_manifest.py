#!/usr/bin/env python3
"""Writes MANIFEST.json from tools/props.py + tools/manifest_text.py (so the manifest never drifts from what ./check does)."""
import json, os, sys
ROOT = os.path.dirname(os.path.dirname(os.path.abspath(__file__)))
sys.path.insert(0, os.path.join(ROOT, "tools"))
from props import PROPS
from manifest_text import TEXT, NOT_APPLICABLE, HOOK_COMMITS

checks = []
for pid in sorted(PROPS):
    t = TEXT[pid]
    checks.append({
        "property_id": pid,
        "quick_cmd": f"./check {pid} quick",
        "thorough_cmd": f"./check {pid} thorough",
        "evidence_file": f"/verif/evidence/{pid}.json",
        "replay_cmd_template": f"./check {pid} --replay {{path}}",
        "engine": "lean4-proof+correspondence",
        "level_claimed": {"category": PROPS[pid]["level"], "text": t["level_text"], "design_ref": t["design_ref"]},
        "level_note": t["level_note"],
        "technique": t["technique"],
    })
all_ids = [f"C{i:02d}" for i in range(1, 18)]
na = [{"property_id": p, "reason": NOT_APPLICABLE.get(p, "check not built yet in this round; see DESIGN.md section 10 (order of work)")} for p in all_ids if p not in PROPS]
m = {
    "version": 1,
    "setup_cmd": "./check setup",
    "hooks": {
        "guard": "--cfg flounder_verif",
        "enable": "harness/.cargo/config.toml sets rustflags = [\"--cfg\", \"flounder_verif\"]; the harness crate includes /repo/src/*.rs by #[path], so hooks are compiled in for the correspondence and never for the real binary",
        "baseline_off_cmd": "cd /repo && cargo test --workspace --no-fail-fast --offline",
        "source_commits": HOOK_COMMITS,
        "add_only": True,
    },
    "engines": [{"name": "lean4-proof+correspondence", "path": "/verif/lean, /verif/harness, /verif/check", "serves_properties": sorted(PROPS), "kind_free_text": "Lean 4 theorems about a hand-written executable model + generated constants; Rust harness drives the real engine in-process and a compiled Lean driver on the same operations (model and executable spec), diffed by ./check"}],
    "checks": checks,
    "not_applicable": na,
    "notes": "All checks share ./check (DESIGN.md sections 1-3). Exit 0 = theorems re-checked by the Lean kernel, axiom audit clean, correspondence clean. KNOWN_FINDINGS.txt lists recorded/fixed defects.",
}
json.dump(m, open(os.path.join(ROOT, "MANIFEST.json"), "w"), indent=1)
print("MANIFEST.json written:", len(checks), "checks,", len(na), "not claimed")
