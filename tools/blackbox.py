"""
Black-box steps against the REAL binary (built from /repo's working tree WITHOUT the verif cfg):
C16 (handshake / unknown input / exit status / end of input), C03 (one legal bestmove per go),
C13 (same commands -> same answers across processes; ucinewgame = fresh process), C07 (latency).
The expected transcript comes from the Lean model (driver op `uci.run`), the legal-move sets from the
Lean SPEC (driver op `spec.legaluci`).
"""
import os
import re
import subprocess
import time

INFO_RE = re.compile(r" time \d+ nps \d+")


def build_engine(ctx):
    tdir = os.path.join(ctx["build"], "engine_target")
    env = dict(os.environ, CARGO_NET_OFFLINE="true")
    p = subprocess.run(["cargo", "build", "--release", "--offline", "--target-dir", tdir], cwd=ctx["repo"], stdout=subprocess.PIPE, stderr=subprocess.STDOUT, text=True, env=env)
    exe = os.path.join(tdir, "release", "flounder")
    if p.returncode != 0 or not os.path.exists(exe):
        return None, p.stdout[-800:]
    return exe, ""


def canon(stdout):
    return [INFO_RE.sub("", ln.rstrip("\r\n")) for ln in stdout.split("\n") if ln != ""]


def run_engine(exe, lines, timeout=60):
    """returns (canonical stdout lines, exit status or 'timeout')"""
    inp = "".join(l + "\n" for l in lines)
    try:
        p = subprocess.run([exe], input=inp, stdout=subprocess.PIPE, stderr=subprocess.DEVNULL, text=True, timeout=timeout)
        return canon(p.stdout), p.returncode
    except subprocess.TimeoutExpired as e:
        out = e.stdout.decode(errors="replace") if isinstance(e.stdout, bytes) else (e.stdout or "")
        return canon(out), "timeout"


def gen_scripts(ctx, flavour, seed, n):
    wd = os.path.join(ctx["work"], "scripts-" + flavour)
    os.makedirs(wd, exist_ok=True)
    hb = os.path.join(ctx["root"], "harness", "target", "release", "flounder_harness")
    p = subprocess.run([hb, "scripts-" + flavour, str(seed), str(n), wd], stdout=subprocess.DEVNULL, stderr=subprocess.PIPE, text=True)
    if p.returncode != 0:
        return None, p.stderr[-500:]
    res = []
    for ln in open(os.path.join(wd, "scripts.txt")).read().split("\n"):
        if not ln:
            continue
        script, _, boards = ln.partition(" @@BOARDS@@ ")
        res.append((script.split(";;"), [b for b in boards.strip().split("|") if b]))
    return res, ""


def driver(ctx, ops):
    exe = os.path.join(ctx["root"], "lean", ".lake", "build", "bin", "driver")
    try:
        p = subprocess.run([exe], input="".join(o + "\n" for o in ops), stdout=subprocess.PIPE, stderr=subprocess.PIPE, text=True, timeout=1500)
        outs = p.stdout.split("\n")
    except subprocess.TimeoutExpired:
        outs = []
    if outs and outs[-1] == "":
        outs.pop()
    res = []
    for o in outs:
        parts = o.split("\t")
        m = parts[0][2:] if parts and parts[0].startswith("M:") else None
        s = parts[1][2:] if len(parts) > 1 and parts[1].startswith("S:") else None
        res.append((m, s))
    return res


def model_transcripts(ctx, scripts):
    ops = ["uci.run " + ";;".join(lines) for lines in scripts]
    res = driver(ctx, ops)
    out = []
    for (m, _s) in res:
        if m is None or " => " not in m:
            out.append((None, None))
            continue
        body, _, oc = m.rpartition(" => ")
        out.append(([x for x in body.split("|") if x != ""] if body else [], oc))
    return out


def step_transcripts(tier, seed, ctx, flavours=("mixed", "handshake", "noquit"), per=None):
    """C16/C03/C13 deterministic part: real binary transcript == model transcript, exit status 0, and the same
    transcript in 3 fresh processes (different key draws)."""
    res = {"name": "blackbox-transcripts", "violations": [], "broken": [], "evaluations": 0, "distinct_nontrivial": 0, "samples": [], "distribution": {}, "spec_compared": 0}
    exe, err = build_engine(ctx)
    if exe is None:
        res["broken"].append("real binary does not build from /repo: " + err)
        return res
    per = per or {"quick": 25, "thorough": 400, "search": 800}[tier]
    seen = set()
    dist = {"scripts": 0, "go_commands": 0, "with_quit": 0, "without_quit": 0, "runs_per_script": 3, "bestmove_lines": 0}
    for fl in flavours:
        scripts, e = gen_scripts(ctx, fl, seed, per)
        if scripts is None:
            res["broken"].append("script generator failed: " + e)
            continue
        models = model_transcripts(ctx, [s for s, _ in scripts])
        legal_ops = []
        for _s, boards in scripts:
            legal_ops += ["spec.legaluci " + b for b in boards]
        legal = [s for (_m, s) in driver(ctx, legal_ops)] if legal_ops else []
        li = 0
        for (lines, boards), (mt, moc) in zip(scripts, models):
            dist["scripts"] += 1
            has_quit = any(l.split()[:1] == ["quit"] for l in lines)
            dist["with_quit" if has_quit else "without_quit"] += 1
            ngo = sum(1 for l in lines[: (next((i for i, l in enumerate(lines) if l.split()[:1] == ["quit"]), len(lines)))] if l.split()[:1] == ["go"])
            dist["go_commands"] += ngo
            runs = [run_engine(exe, lines) for _ in range(3)]
            res["evaluations"] += 3
            key = ";;".join(lines)
            if key not in seen and (ngo > 0 or len(lines) > 3):
                seen.add(key)
            out0, rc0 = runs[0]
            my_legal = legal[li: li + len(boards)]
            li += len(boards)
            # exit status / termination (C16)
            if rc0 != 0:
                res["violations"].append({"kind": "process-exit", "script": lines, "exit": rc0, "expected": 0, "stdout_tail": out0[-5:], "how": "printf of the script lines piped into the release binary"})
                continue
            # same answers in every process (C13)
            for (o, rc) in runs[1:]:
                if o != out0 or rc != rc0:
                    res["violations"].append({"kind": "transcript-differs-between-processes", "script": lines, "run_a": out0[-12:], "run_b": o[-12:]})
                    break
            # transcript predicted by the model (tie for Engine/Search models; C16 handshake content)
            if mt is None:
                res["broken"].append("driver gave no transcript for a script")
            elif moc == "model-out-of-fuel":
                pass
            elif mt != out0 or moc != "exit0":
                res["broken"].append("correspondence blackbox: model transcript != real binary on script " + repr(lines)[:300] + " model=" + repr(mt[-4:]) + "/" + str(moc) + " impl=" + repr(out0[-4:]))
            # one legal bestmove per go (C03), judged by the SPEC's legal-move set
            bms = [l for l in out0 if l.startswith("bestmove")]
            dist["bestmove_lines"] += len(bms)
            if len(bms) != ngo:
                res["violations"].append({"kind": "bestmove-count", "script": lines, "go_commands": ngo, "bestmove_lines": bms})
            else:
                for bm, lg in zip(bms, my_legal[:ngo]):
                    res["spec_compared"] += 1
                    mv = bm.split()[1] if len(bm.split()) > 1 else ""
                    lgs = (lg or "").split()
                    if (mv == "0000" and lgs) or (mv != "0000" and mv not in lgs):
                        res["violations"].append({"kind": "illegal-or-missing-bestmove", "script": lines, "bestmove": bm, "legal_moves_by_the_rules": lgs})
            if len(res["samples"]) < 3 and ngo > 0:
                res["samples"].append({"script": lines, "stdout": out0[-6:], "exit": rc0})
    res["distinct_nontrivial"] = len(seen)
    res["distribution"] = {"blackbox_transcripts": dist}
    return res


def step_newgame(tier, seed, ctx):
    """C13 second half: prefix + ucinewgame + suffix answers the suffix exactly like a fresh process."""
    res = {"name": "blackbox-ucinewgame", "violations": [], "broken": [], "evaluations": 0, "distinct_nontrivial": 0, "samples": [], "distribution": {}, "spec_compared": 0}
    exe, err = build_engine(ctx)
    if exe is None:
        res["broken"].append("real binary does not build from /repo: " + err)
        return res
    n = {"quick": 12, "thorough": 200, "search": 400}[tier]
    pre, e1 = gen_scripts(ctx, "noquit", seed + 1000, n)
    suf, e2 = gen_scripts(ctx, "noquit", seed + 2000, n)
    if pre is None or suf is None:
        res["broken"].append("script generator failed: " + e1 + e2)
        return res
    cnt = 0
    for (p, _), (s, _) in zip(pre, suf):
        p = [l for l in p if l.split()[:1] != ["quit"]]
        s = [l for l in s if l.split()[:1] != ["quit"]]
        a, rca = run_engine(exe, p + ["ucinewgame"] + s)
        b, rcb = run_engine(exe, s)
        res["evaluations"] += 2
        res["spec_compared"] += 1
        cnt += 1
        tail = a[len(a) - len(b):] if len(b) <= len(a) else None
        if tail != b or rca != rcb:
            res["violations"].append({"kind": "ucinewgame-not-fresh", "prefix": p, "suffix": s, "suffix_output_after_newgame": (tail or a)[-10:], "suffix_output_fresh_process": b[-10:]})
        elif len(res["samples"]) < 2:
            res["samples"].append({"prefix": p[-3:], "suffix": s, "suffix_output": b[-4:]})
    res["distinct_nontrivial"] = cnt
    res["distribution"] = {"blackbox_ucinewgame": {"prefix_suffix_pairs": cnt}}
    return res


def step_timed(tier, seed, ctx):
    """C03 with real clocks: every go (movetime 0/1/5/30, clocks around the 5 s reserve) is answered by exactly one
    bestmove that is legal by the spec."""
    res = {"name": "blackbox-timed-go", "violations": [], "broken": [], "evaluations": 0, "distinct_nontrivial": 0, "samples": [], "distribution": {}, "spec_compared": 0}
    exe, err = build_engine(ctx)
    if exe is None:
        res["broken"].append("real binary does not build from /repo: " + err)
        return res
    n = {"quick": 20, "thorough": 300, "search": 600}[tier]
    scripts, e = gen_scripts(ctx, "timed", seed + 3000, n)
    if scripts is None:
        res["broken"].append("script generator failed: " + e)
        return res
    legal_ops = []
    for _s, boards in scripts:
        legal_ops += ["spec.legaluci " + b for b in boards]
    legal = [s for (_m, s) in driver(ctx, legal_ops)] if legal_ops else []
    li = 0
    goes = 0
    for lines, boards in scripts:
        out, rc = run_engine(exe, lines)
        res["evaluations"] += 1
        my_legal = legal[li: li + len(boards)]
        li += len(boards)
        upto = next((i for i, l in enumerate(lines) if l.split()[:1] == ["quit"]), len(lines))
        ngo = sum(1 for l in lines[:upto] if l.split()[:1] == ["go"])
        bms = [l for l in out if l.startswith("bestmove")]
        if rc != 0:
            res["violations"].append({"kind": "process-exit", "script": lines, "exit": rc})
            continue
        if len(bms) != ngo:
            res["violations"].append({"kind": "bestmove-count", "script": lines, "go_commands": ngo, "bestmove_lines": bms})
            continue
        for bm, lg in zip(bms, my_legal[:ngo]):
            goes += 1
            res["spec_compared"] += 1
            mv = bm.split()[1] if len(bm.split()) > 1 else ""
            lgs = (lg or "").split()
            if (mv == "0000" and lgs) or (mv != "0000" and mv not in lgs):
                res["violations"].append({"kind": "illegal-or-missing-bestmove", "script": lines, "bestmove": bm, "legal_moves_by_the_rules": lgs})
    res["distinct_nontrivial"] = goes
    res["distribution"] = {"blackbox_timed": {"scripts": len(scripts), "timed_go_commands": goes}}
    return res


EXPLOSIVE = [
    "8/PPPPPPPP/8/2k5/8/2K5/pppppppp/8 w - - 0 1",
    "r3k2r/p1ppqpb1/bn2pnp1/3PN3/1p2P3/2N2Q1p/PPPBBPPP/R3K2R w KQkq - 0 1",
    "q3k2q/8/8/3QQ3/3qq3/8/8/Q3K2Q w - - 0 1",
    "rnbqkbnr/pppppppp/8/8/8/8/PPPPPPPP/RNBQKBNR w KQkq - 0 1",
    "r4rk1/1pp1qppp/p1np1n2/2b1p1B1/2B1P1b1/P1NP1N2/1PP1QPPP/R4RK1 w - - 0 10",
]


def step_latency(tier, seed, ctx):
    """C07 observed part: go movetime T returns within T + a fixed generous bound on positions whose quiescence explodes."""
    res = {"name": "blackbox-latency", "violations": [], "broken": [], "evaluations": 0, "distinct_nontrivial": 0, "samples": [], "distribution": {}, "spec_compared": 0}
    exe, err = build_engine(ctx)
    if exe is None:
        res["broken"].append("real binary does not build from /repo: " + err)
        return res
    bound_ms = 400
    budgets = [20, 60] if tier == "quick" else [10, 20, 60, 150, 400]
    worst = 0.0
    for fen in EXPLOSIVE:
        for t in budgets:
            p = subprocess.Popen([exe], stdin=subprocess.PIPE, stdout=subprocess.PIPE, stderr=subprocess.DEVNULL, text=True, bufsize=1)
            try:
                p.stdin.write("position fen %s\nisready\n" % fen)
                p.stdin.flush()
                while True:
                    ln = p.stdout.readline()
                    if not ln or ln.strip() == "readyok":
                        break
                t0 = time.time()
                p.stdin.write("go movetime %d\n" % t)
                p.stdin.flush()
                got = None
                while True:
                    ln = p.stdout.readline()
                    if not ln:
                        break
                    if ln.startswith("bestmove"):
                        got = ln.strip()
                        break
                dt = (time.time() - t0) * 1000.0
                res["evaluations"] += 1
                res["spec_compared"] += 1
                over = dt - t
                worst = max(worst, over)
                if got is None or over > bound_ms:
                    res["violations"].append({"kind": "latency", "fen": fen, "movetime_ms": t, "answered_after_ms": round(dt, 1), "bound_ms": t + bound_ms, "answer": got})
                elif len(res["samples"]) < 3:
                    res["samples"].append({"fen": fen, "movetime_ms": t, "answered_after_ms": round(dt, 1), "answer": got})
            finally:
                try:
                    p.stdin.write("quit\n")
                    p.stdin.flush()
                except Exception:
                    pass
                try:
                    p.wait(timeout=5)
                except Exception:
                    p.kill()
    res["distinct_nontrivial"] = res["evaluations"]
    res["distribution"] = {"blackbox_latency": {"max_overshoot_ms": round(worst, 1), "bound_ms": bound_ms, "positions": len(EXPLOSIVE), "budgets_ms": budgets}}
    return res
