"""
Black-box steps against the REAL binary (built from /repo's working tree WITHOUT the verif cfg):
C16 (handshake / unknown input / exit status / end of input), C03 (one legal bestmove per go),
C13 (same commands -> same answers across processes; ucinewgame = fresh process), C07 (latency).
The expected transcript comes from the Lean model (driver op `uci.run`), the legal-move sets from the
Lean SPEC (driver op `spec.legaluci`).
"""
import os
import re
import subprocess
import threading
import time

INFO_RE = re.compile(r" time \d+ nps \d+")


def build_engine(ctx):
    tdir = os.path.join(ctx["build"], "engine_target")
    env = dict(os.environ, CARGO_NET_OFFLINE="true")
    p = subprocess.run(["cargo", "build", "--release", "--offline", "--target-dir", tdir], cwd=ctx["repo"], stdout=subprocess.PIPE, stderr=subprocess.STDOUT, text=True, env=env)
    exe = os.path.join(tdir, "release", "flounder")
    if p.returncode != 0 or not os.path.exists(exe):
        return None, p.stdout[-800:]
    return exe, ""


def canon(stdout):
    return [INFO_RE.sub("", ln.rstrip("\r\n")) for ln in stdout.split("\n") if ln != ""]


def encode_script(lines, encoding="lf"):
    """bytes fed to the engine's stdin.  Encodings (C16: the answer must not depend on them):
       lf        every line terminated by \\n
       crlf      every line terminated by \\r\\n
       nofinal   like lf but the LAST line is not terminated (input ends right after the last command)
       badutf8   like lf, with lines that are not valid UTF-8 inserted (read_line fails on them: they must be skipped silently)"""
    bl = [l.encode("utf-8", errors="surrogatepass") if isinstance(l, str) else l for l in lines]
    if encoding == "crlf":
        return b"".join(x + b"\r\n" for x in bl)
    if encoding == "nofinal":
        return b"\n".join(bl)
    if encoding == "badutf8":
        out = []
        for i, x in enumerate(bl):
            if i % 3 == 0:
                out.append([b"\xff\xfe isready", b"uci \xc3\x28", b"\x80", b"quit\xff", b"\xf0\x9f uci"][(i // 3) % 5])
            out.append(x)
        out.append(b"\xc0\xaf isready")
        return b"".join(x + b"\n" for x in out)
    return b"".join(x + b"\n" for x in bl)


def run_engine(exe, lines, timeout=60, encoding="lf"):
    """returns (canonical stdout lines, exit status or 'timeout')"""
    inp = encode_script(lines, encoding)
    try:
        p = subprocess.run([exe], input=inp, stdout=subprocess.PIPE, stderr=subprocess.DEVNULL, timeout=timeout)
        return canon(p.stdout.decode("utf-8", errors="replace")), p.returncode
    except subprocess.TimeoutExpired as e:
        out = e.stdout.decode(errors="replace") if isinstance(e.stdout, bytes) else (e.stdout or "")
        return canon(out), "timeout"


def first_diff(a, b):
    for i, (x, y) in enumerate(zip(a, b)):
        if x != y:
            return {"line": i, "a": x, "b": y}
    if len(a) != len(b):
        return {"line": min(len(a), len(b)), "a": a[len(b):][:1] or None, "b": b[len(a):][:1] or None, "lengths": [len(a), len(b)]}
    return None


def gen_scripts(ctx, flavour, seed, n):
    wd = os.path.join(ctx["work"], "scripts-" + flavour)
    os.makedirs(wd, exist_ok=True)
    hb = os.path.join(ctx["root"], "harness", "target", "release", "flounder_harness")
    p = subprocess.run([hb, "scripts-" + flavour, str(seed), str(n), wd], stdout=subprocess.DEVNULL, stderr=subprocess.PIPE, text=True)
    if p.returncode != 0:
        return None, p.stderr[-500:]
    res = []
    for ln in open(os.path.join(wd, "scripts.txt")).read().split("\n"):
        if not ln:
            continue
        script, _, boards = ln.partition(" @@BOARDS@@ ")
        res.append((script.split(";;"), [b for b in boards.strip().split("|") if b]))
    return res, ""


def driver(ctx, ops):
    exe = os.path.join(ctx["root"], "lean", ".lake", "build", "bin", "driver")
    try:
        p = subprocess.run([exe], input="".join(o + "\n" for o in ops), stdout=subprocess.PIPE, stderr=subprocess.PIPE, text=True, timeout=1500)
        outs = p.stdout.split("\n")
    except subprocess.TimeoutExpired:
        outs = []
    if outs and outs[-1] == "":
        outs.pop()
    res = []
    for o in outs:
        parts = o.split("\t")
        m = parts[0][2:] if parts and parts[0].startswith("M:") else None
        s = parts[1][2:] if len(parts) > 1 and parts[1].startswith("S:") else None
        res.append((m, s))
    return res


def rules_legal_per_go(ctx, scripts):
    """for each script: list (one entry per executed go) of the UCI texts of the rules-legal moves in the position the script's
    position commands prescribe — computed by the Lean side alone (the engine's own board is not consulted)"""
    res = driver(ctx, ["uci.golegal " + ";;".join(lines) for lines in scripts])
    out = []
    for (_m, sp) in res:
        out.append([] if sp is None or sp == "" else [g.split() if g != "?" else None for g in sp.split("|")])
    while len(out) < len(scripts):
        out.append([])
    return out


def model_transcripts(ctx, scripts):
    ops = ["uci.run " + ";;".join(lines) for lines in scripts]
    res = driver(ctx, ops)
    out = []
    for (m, _s) in res:
        if m is None or " => " not in m:
            out.append((None, None))
            continue
        body, _, oc = m.rpartition(" => ")
        out.append(([x for x in body.split("|") if x != ""] if body else [], oc))
    return out


def step_transcripts(tier, seed, ctx, flavours=("mixed", "handshake", "noquit"), per=None, encodings=("lf", "lf", "lf")):
    """C16/C03/C13 deterministic part: real binary transcript == model transcript, exit status 0, and the same
    transcript in 3 fresh processes (different key draws)."""
    res = {"name": "blackbox-transcripts", "violations": [], "broken": [], "evaluations": 0, "distinct_nontrivial": 0, "samples": [], "distribution": {}, "spec_compared": 0}
    exe, err = build_engine(ctx)
    if exe is None:
        res["broken"].append("real binary does not build from /repo: " + err)
        return res
    per = per or {"quick": 25, "thorough": 400, "search": 800}[tier]
    seen = set()
    dist = {"scripts": 0, "go_commands": 0, "with_quit": 0, "without_quit": 0, "runs_per_script": 3, "bestmove_lines": 0, "stdin_encodings": [list(e) if isinstance(e, (tuple, list)) else e for e in encodings],
            "non_ascii_lines": 0, "newgame_splits_checked": 0}
    for fl in flavours:
        scripts, e = gen_scripts(ctx, fl, seed, per)
        if scripts is None:
            res["broken"].append("script generator failed: " + e)
            continue
        models = model_transcripts(ctx, [s for s, _ in scripts])
        legal_groups = rules_legal_per_go(ctx, [s for s, _ in scripts])
        for si, ((lines, boards), (mt, moc)) in enumerate(zip(scripts, models)):
            dist["scripts"] += 1
            has_quit = any(l.split()[:1] == ["quit"] for l in lines)
            dist["with_quit" if has_quit else "without_quit"] += 1
            ngo = sum(1 for l in lines[: (next((i for i, l in enumerate(lines) if l.split()[:1] == ["quit"]), len(lines)))] if l.split()[:1] == ["go"])
            dist["go_commands"] += ngo
            encs = encodings[dist["scripts"] % len(encodings)] if isinstance(encodings[0], (tuple, list)) else encodings
            runs = [run_engine(exe, lines, encoding=enc) for enc in encs]
            dist["non_ascii_lines"] += sum(1 for l in lines if any(ord(ch) > 126 or ord(ch) < 9 for ch in l))
            res["evaluations"] += 3
            key = ";;".join(lines)
            if key not in seen and (ngo > 0 or len(lines) > 3):
                seen.add(key)
            out0, rc0 = runs[0]
            my_legal = legal_groups[si] if si < len(legal_groups) else []
            # exit status / termination (C16)
            if rc0 != 0:
                res["violations"].append({"kind": "process-exit", "script": lines, "exit": rc0, "expected": 0, "stdout_tail": out0[-5:], "how": "printf of the script lines piped into the release binary"})
                continue
            # same answers in every process (C13)
            for (o, rc), enc in zip(runs[1:], encs[1:]):
                if o != out0 or rc != rc0:
                    res["violations"].append({"kind": "transcript-differs-between-processes" if enc == encs[0] else "transcript-depends-on-stdin-encoding",
                                              "script": lines, "stdin_encoding_a": encs[0], "stdin_encoding_b": enc, "exit_a": rc0, "exit_b": rc,
                                              "first_difference": first_diff(out0, o), "run_a": out0[-12:], "run_b": o[-12:]})
                    break
            # transcript predicted by the model (tie for Engine/Search models; C16 handshake content)
            if mt is None:
                res["broken"].append("driver gave no transcript for a script")
            elif moc == "model-out-of-fuel":
                pass
            elif mt != out0 or moc != "exit0":
                res["broken"].append("correspondence blackbox: model transcript != real binary on script " + repr(lines)[:400] + " first difference (a=model, b=binary): " + repr(first_diff(mt, out0)) + " model outcome=" + str(moc))
                # a concrete property-level question behind such a difference: does the part after the last `ucinewgame`
                # behave like a fresh process?  (C13, second half) -- ask the real binary
                upto = next((i for i, l in enumerate(lines) if l.split()[:1] == ["quit"]), len(lines))
                ng = [i for i, l in enumerate(lines[:upto]) if l.split()[:1] == ["ucinewgame"]]
                if ng:
                    dist["newgame_splits_checked"] += 1
                    check_newgame_split(exe, lines[:upto], ng[-1], res)
            # one legal bestmove per go (C03), judged by the SPEC's legal-move set
            bms = [l for l in out0 if l.startswith("bestmove")]
            dist["bestmove_lines"] += len(bms)
            if len(bms) != ngo:
                res["violations"].append({"kind": "bestmove-count", "script": lines, "go_commands": ngo, "bestmove_lines": bms})
            else:
                for bm, lgs in zip(bms, my_legal[:ngo]):
                    if lgs is None:
                        continue
                    res["spec_compared"] += 1
                    mv = bm.split()[1] if len(bm.split()) > 1 else ""
                    if (mv == "0000" and lgs) or (mv != "0000" and mv not in lgs):
                        res["violations"].append({"kind": "illegal-or-missing-bestmove", "script": lines, "bestmove": bm, "legal_moves_by_the_rules": lgs})
            if len(res["samples"]) < 3 and ngo > 0:
                res["samples"].append({"script": lines, "stdout": out0[-6:], "exit": rc0})
    res["distinct_nontrivial"] = len(seen)
    res["distribution"] = {"blackbox_transcripts": dist}
    return res


def check_newgame_split(exe, lines, i, res):
    """lines[:i] + ucinewgame + lines[i+1:]: the output belonging to the part after ucinewgame must be what a FRESH process prints
    for that part alone.  Appends a violation and returns True when it is not."""
    pre, suf = lines[:i], lines[i + 1:]
    a, rca = run_engine(exe, pre + ["ucinewgame"] + suf)
    b, rcb = run_engine(exe, suf)
    res["evaluations"] += 2
    tail = a[len(a) - len(b):] if len(b) <= len(a) else None
    if tail != b or rca != rcb:
        res["violations"].append({"kind": "ucinewgame-not-fresh", "prefix": pre, "suffix": suf, "first_difference (a=after ucinewgame, b=fresh process)": first_diff(tail or a, b),
                                  "suffix_output_after_newgame": (tail or a)[-10:], "suffix_output_fresh_process": b[-10:]})
        return True
    return False


def step_newgame(tier, seed, ctx):
    """C13 second half: prefix + ucinewgame + suffix answers the suffix exactly like a fresh process."""
    res = {"name": "blackbox-ucinewgame", "violations": [], "broken": [], "evaluations": 0, "distinct_nontrivial": 0, "samples": [], "distribution": {}, "spec_compared": 0}
    exe, err = build_engine(ctx)
    if exe is None:
        res["broken"].append("real binary does not build from /repo: " + err)
        return res
    n = {"quick": 12, "thorough": 200, "search": 400}[tier]
    pre, e1 = gen_scripts(ctx, "noquit", seed + 1000, n)
    suf, e2 = gen_scripts(ctx, "noquit", seed + 2000, n)
    if pre is None or suf is None:
        res["broken"].append("script generator failed: " + e1 + e2)
        return res
    cnt = 0
    rep_cnt = 0
    # fixed scenarios first: state that a position command (not only a search) leaves behind, games with repeated positions,
    # the same position line again after the new game
    shuffle = "position startpos moves g1f3 g8f6 f3g1 f6g8 g1f3 g8f6 f3g1 f6g8"
    game = "position startpos moves e2e4 e7e5 g1f3"
    fixed = [([shuffle], ["go depth 4"]), ([shuffle], ["position startpos", "go depth 4"]), ([shuffle, "go depth 3"], ["go depth 4"]),
             ([game, "go depth 3"], [game, "go depth 3"]), ([game], [game, "go depth 3"]),
             # the history that matters is given AFTER the new game (anything rebuilt lazily at the next go must not mix
             # state from before and after it)
             ([], [shuffle, "go depth 4"]), ([game, "go depth 2"], [shuffle, "go depth 4"]), (["isready"], [shuffle, "go depth 3", "go depth 4"]),
             ([], ["position fen 4k3/8/8/8/q7/8/8/6K1 b - - 0 1 moves a4a5 g1h1 a5a6 h1g1 a6a5 g1h1 a5a6 h1g1", "go depth 4"]),
             (["position fen 4k3/8/8/8/q7/8/8/6K1 b - - 0 1 moves a4a5 g1h1 a5a6 h1g1 a6a5 g1h1 a5a6 h1g1", "go depth 3"], ["position fen 4k3/8/8/8/q7/8/8/6K1 b - - 0 1 moves a4a5 g1h1", "go depth 4"])]
    for p, s_ in fixed:
        a, rca = run_engine(exe, p + ["ucinewgame"] + s_)
        b, rcb = run_engine(exe, s_)
        res["evaluations"] += 2
        res["spec_compared"] += 1
        cnt += 1
        tail = a[len(a) - len(b):] if len(b) <= len(a) else None
        if tail != b or rca != rcb:
            res["violations"].append({"kind": "ucinewgame-not-fresh", "prefix": p, "suffix": s_, "first_difference (a=after ucinewgame, b=fresh process)": first_diff(tail or a, b),
                                      "suffix_output_after_newgame": (tail or a)[-10:], "suffix_output_fresh_process": b[-10:]})
    for (p, _), (s, _) in zip(pre, suf):
        p = [l for l in p if l.split()[:1] != ["quit"]]
        s = [l for l in s if l.split()[:1] != ["quit"]]
        a, rca = run_engine(exe, p + ["ucinewgame"] + s)
        b, rcb = run_engine(exe, s)
        res["evaluations"] += 2
        res["spec_compared"] += 1
        cnt += 1
        tail = a[len(a) - len(b):] if len(b) <= len(a) else None
        if tail != b or rca != rcb:
            res["violations"].append({"kind": "ucinewgame-not-fresh", "prefix": p, "suffix": s, "first_difference (a=after ucinewgame, b=fresh process)": first_diff(tail or a, b),
                                      "suffix_output_after_newgame": (tail or a)[-10:], "suffix_output_fresh_process": b[-10:]})
        elif len(res["samples"]) < 2:
            res["samples"].append({"prefix": p[-3:], "suffix": s, "suffix_output": b[-4:]})
        # the same game again after ucinewgame: everything a search leaves behind (table, killers, history heuristic,
        # game history) would influence exactly these searches, so this is where a leak shows first
        if any(l.split()[:1] == ["go"] for l in p):
            c, rcc = run_engine(exe, p + ["ucinewgame"] + p)
            o, rco = run_engine(exe, p)
            res["evaluations"] += 2
            res["spec_compared"] += 1
            rep_cnt += 1
            if c != o + o or rcc != rco:
                res["violations"].append({"kind": "ucinewgame-not-fresh", "prefix": p, "suffix": p, "first_difference (a=script+ucinewgame+script, b=fresh output twice)": first_diff(c, o + o),
                                          "note": "the same script repeated after ucinewgame must print what a fresh process prints"})
    res["distinct_nontrivial"] = cnt
    res["distribution"] = {"blackbox_ucinewgame": {"prefix_suffix_pairs": cnt, "script_repeated_after_newgame": rep_cnt}}
    return res


def step_timed(tier, seed, ctx):
    """C03 with real clocks: every go (movetime 0/1/5/30, clocks around the 5 s reserve) is answered by exactly one
    bestmove that is legal by the spec."""
    res = {"name": "blackbox-timed-go", "violations": [], "broken": [], "evaluations": 0, "distinct_nontrivial": 0, "samples": [], "distribution": {}, "spec_compared": 0}
    exe, err = build_engine(ctx)
    if exe is None:
        res["broken"].append("real binary does not build from /repo: " + err)
        return res
    n = {"quick": 20, "thorough": 300, "search": 600}[tier]
    scripts, e = gen_scripts(ctx, "timed", seed + 3000, n)
    if scripts is None:
        res["broken"].append("script generator failed: " + e)
        return res
    legal_groups = rules_legal_per_go(ctx, [s for s, _ in scripts])
    goes = 0
    for si, (lines, boards) in enumerate(scripts):
        out, rc = run_engine(exe, lines)
        res["evaluations"] += 1
        my_legal = legal_groups[si] if si < len(legal_groups) else []
        upto = next((i for i, l in enumerate(lines) if l.split()[:1] == ["quit"]), len(lines))
        ngo = sum(1 for l in lines[:upto] if l.split()[:1] == ["go"])
        bms = [l for l in out if l.startswith("bestmove")]
        if rc != 0:
            res["violations"].append({"kind": "process-exit", "script": lines, "exit": rc})
            continue
        if len(bms) != ngo:
            res["violations"].append({"kind": "bestmove-count", "script": lines, "go_commands": ngo, "bestmove_lines": bms})
            continue
        for bm, lgs in zip(bms, my_legal[:ngo]):
            if lgs is None:
                continue
            goes += 1
            res["spec_compared"] += 1
            mv = bm.split()[1] if len(bm.split()) > 1 else ""
            if (mv == "0000" and lgs) or (mv != "0000" and mv not in lgs):
                res["violations"].append({"kind": "illegal-or-missing-bestmove", "script": lines, "bestmove": bm, "legal_moves_by_the_rules": lgs})
    res["distinct_nontrivial"] = goes
    res["distribution"] = {"blackbox_timed": {"scripts": len(scripts), "timed_go_commands": goes}}
    return res


HEAVY_SESSIONS = [
    ["position fen r3k2r/p1ppqpb1/bn2pnp1/3PN3/1p2P3/2N2Q1p/PPPBBPPP/R3K2R w KQkq - 0 1", "go depth 4",
     "position fen r4rk1/1pp1qppp/p1np1n2/2b1p1B1/2B1P1b1/P1NP1N2/1PP1QPPP/R4RK1 w - - 0 10", "go depth 4",
     "position startpos moves e2e4 e7e5 g1f3 b8c6 f1b5 a7a6", "go depth 5"],
    # games whose history already contains repeated positions (the record of the game is hashed with the drawn keys)
    ["position startpos moves g1f3 g8f6 f3g1 f6g8 g1f3 g8f6", "go depth 4",
     "position startpos moves b1c3 b8c6 c3b1 c6b8 b1c3 b8c6 c3b1", "go depth 4", "go depth 3",
     "position fen 4k3/8/8/8/q7/8/8/6K1 b - - 0 1 moves a4a5 g1h1 a5a6 h1g1 a6a5 g1h1 a5a6 h1g1 a6a5", "go depth 3", "go depth 5"],
    # a table population in the hundreds of thousands of records (capacity limits, eviction order, slot collisions)
    ["position startpos", "go depth 8", "position startpos moves e2e4 e7e5", "go depth 7"],
]


def step_heavy_sessions(tier, seed, ctx):
    """C13 on LARGE searches (hundreds of thousands of nodes, tens of thousands of table records): the same session in
    several fresh processes (independent key draws) must print identical transcripts.  The Lean model is not run on these
    (too slow); the processes are compared with each other — a difference IS a dependence on the drawn keys."""
    res = {"name": "blackbox-heavy-sessions", "violations": [], "broken": [], "evaluations": 0, "distinct_nontrivial": 0, "samples": [], "distribution": {}, "spec_compared": 0}
    exe, err = build_engine(ctx)
    if exe is None:
        res["broken"].append("real binary does not build from /repo: " + err)
        return res
    nproc = {"quick": 3, "thorough": 6, "search": 8}[tier]
    total_nodes = 0
    for sess in HEAVY_SESSIONS:
        ps = []
        for _ in range(nproc):
            ps.append(subprocess.Popen([exe], stdin=subprocess.PIPE, stdout=subprocess.PIPE, stderr=subprocess.DEVNULL))
        outs = []
        inp = encode_script(sess)
        for p in ps:
            try:
                o, _ = p.communicate(inp, timeout=600)
                outs.append((canon(o.decode("utf-8", errors="replace")), p.returncode))
            except subprocess.TimeoutExpired:
                p.kill()
                outs.append(([], "timeout"))
        res["evaluations"] += nproc
        res["spec_compared"] += nproc - 1
        for ln in outs[0][0]:
            m = re.search(r" nodes (\d+)", ln)
            if m:
                total_nodes = max(total_nodes, int(m.group(1)))
        for (o, rc) in outs[1:]:
            if o != outs[0][0] or rc != outs[0][1]:
                res["violations"].append({"kind": "transcript-differs-between-processes", "script": sess, "first_difference": first_diff(outs[0][0], o), "exit_a": outs[0][1], "exit_b": rc,
                                          "note": "same commands, different fresh processes (different random hash keys)"})
                break
        if len(res["samples"]) < 1:
            res["samples"].append({"script": sess, "stdout_tail": outs[0][0][-3:], "processes": nproc})
    res["distinct_nontrivial"] = len(HEAVY_SESSIONS)
    res["distribution"] = {"blackbox_heavy_sessions": {"sessions": len(HEAVY_SESSIONS), "processes_per_session": nproc, "largest_node_count_seen": total_nodes}}
    return res


AFTER_TIMED_POSITIONS = [
    "rnbqkbnr/pppppppp/8/8/8/8/PPPPPPPP/RNBQKBNR w KQkq - 0 1",
    "r1bqkbnr/pppp1ppp/2n5/4p3/4P3/5N2/PPPP1PPP/RNBQKB1R w KQkq - 2 3",
    "8/5k2/pp6/2p3K1/2P5/1P6/P7/8 b - - 0 1",
    "4k2r/6pp/8/8/8/8/PP6/R3K3 w Qk - 0 1",
    "r4rk1/1pp1qppp/p1np1n2/2b1p1B1/2B1P1b1/P1NP1N2/1PP1QPPP/R4RK1 w - - 0 10",
    "6k1/5ppp/8/8/8/8/5PPP/4R1K1 w - - 0 1",
]


def split_by_bestmove(lines):
    """transcript -> list of (info lines, bestmove line) per answered go"""
    out, cur = [], []
    for ln in lines:
        if ln.startswith("bestmove"):
            out.append((cur, ln))
            cur = []
        elif ln.startswith("info"):
            cur.append(ln)
    return out


def step_after_timed(tier, seed, ctx):
    """C06 black-box: a search cut off by a REAL clock budget must leave nothing behind that cuts a later search short.  One
    process: position P, go movetime T (T in 0/1/3 ms, or a clock under the reserve), then go depth d; a fresh process:
    position P, go depth d.  The depth-limited search must complete all d iterations in both (one info line per depth,
    the last one for depth d) and answer with a move."""
    res = {"name": "blackbox-after-timed", "violations": [], "broken": [], "evaluations": 0, "distinct_nontrivial": 0, "samples": [], "distribution": {}, "spec_compared": 0}
    exe, err = build_engine(ctx)
    if exe is None:
        res["broken"].append("real binary does not build from /repo: " + err)
        return res
    timed = ["go movetime 0", "go movetime 1", "go movetime 3", "go wtime 3000 btime 3000", "go wtime 5100 btime 5100 winc 2 binc 2"]
    depths = [3] if tier == "quick" else [2, 3, 4]
    n = 0
    for pi, fen in enumerate(AFTER_TIMED_POSITIONS):
        for d in depths:
            tcmds = [timed[(pi + d + seed) % len(timed)]] if tier == "quick" else timed
            fresh, rcf = run_engine(exe, ["position fen " + fen, "go depth %d" % d])
            fr = split_by_bestmove(fresh)
            res["evaluations"] += 1
            if rcf != 0 or len(fr) != 1:
                res["broken"].append("after-timed: fresh process did not answer `go depth %d` on %s" % (d, fen))
                continue
            want_infos = len(fr[0][0])
            for tc in tcmds:
                a, rca = run_engine(exe, ["position fen " + fen, tc, "go depth %d" % d])
                ar = split_by_bestmove(a)
                res["evaluations"] += 1
                res["spec_compared"] += 1
                n += 1
                ok = rca == 0 and len(ar) == 2 and len(ar[1][0]) == want_infos and (not ar[1][0] or (" depth %d " % d) in ar[1][0][-1] + " ") and ar[1][1] != "bestmove 0000"
                if not ok:
                    res["violations"].append({"kind": "later-search-affected-by-interrupted-search", "script": ["position fen " + fen, tc, "go depth %d" % d],
                                              "second_go_output": (ar[1][0] + [ar[1][1]]) if len(ar) == 2 else a[-6:], "fresh_process_output": fr[0][0] + [fr[0][1]], "exit": rca,
                                              "note": "after a search cut off by its clock budget, a depth-limited search on the same engine must still complete every iteration"})
                elif len(res["samples"]) < 2:
                    res["samples"].append({"script": ["position fen " + fen, tc, "go depth %d" % d], "second_go_last_info": ar[1][0][-1] if ar[1][0] else None})
    res["distinct_nontrivial"] = n
    res["distribution"] = {"blackbox_after_timed": {"positions": len(AFTER_TIMED_POSITIONS), "depths": depths, "timed_then_depth_limited_pairs": n}}
    return res


def step_eof_during_search(tier, seed, ctx):
    """C16 black-box: the whole script is written to stdin and stdin is closed AT ONCE, so the input ends while a search of some
    hundred milliseconds is still running and commands are queued behind it: every command must still be answered, then exit 0."""
    res = {"name": "blackbox-eof-during-search", "violations": [], "broken": [], "evaluations": 0, "distinct_nontrivial": 0, "samples": [], "distribution": {}, "spec_compared": 0}
    exe, err = build_engine(ctx)
    if exe is None:
        res["broken"].append("real binary does not build from /repo: " + err)
        return res
    scripts = [["isready", "position startpos", "go depth 6", "isready", "uci"],
               ["position startpos moves e2e4 e7e5", "go movetime 300", "isready", "xyzzy", "isready"],
               ["uci", "position fen r1bqkbnr/pppp1ppp/2n5/4p3/4P3/5N2/PPPP1PPP/RNBQKB1R w KQkq - 2 3", "go depth 5", "go depth 2", "isready"]]
    if tier != "quick":
        scripts += [["position startpos", "go movetime 1200", "isready"], ["position startpos", "go depth 7", "quit", "isready"]]
    def run_delayed_close(lines, delay_s):
        """write the script, keep stdin open for `delay_s` seconds (the search has started by then), close it, collect the output"""
        p = subprocess.Popen([exe], stdin=subprocess.PIPE, stdout=subprocess.PIPE, stderr=subprocess.DEVNULL)
        try:
            p.stdin.write(encode_script(lines))
            p.stdin.flush()
            time.sleep(delay_s)
            p.stdin.close()
            try:
                o = p.stdout.read()
                p.wait(timeout=120)
                return canon(o.decode("utf-8", errors="replace")), p.returncode
            except subprocess.TimeoutExpired:
                p.kill()
                return [], "timeout"
        finally:
            if p.poll() is None:
                p.kill()

    for lines in scripts:
        for enc in ("lf", "nofinal", "delayed-close"):
            out, rc = run_delayed_close(lines, 0.15) if enc == "delayed-close" else run_engine(exe, lines, timeout=120, encoding=enc)
            res["evaluations"] += 1
            res["spec_compared"] += 1
            upto = next((i for i, l in enumerate(lines) if l.split()[:1] == ["quit"]), len(lines))
            want_ready = sum(1 for l in lines[:upto] if l.split()[:1] == ["isready"])
            want_best = sum(1 for l in lines[:upto] if l.split()[:1] == ["go"])
            want_uciok = sum(1 for l in lines[:upto] if l.split()[:1] == ["uci"])
            got_ready = sum(1 for l in out if l == "readyok")
            got_best = sum(1 for l in out if l.startswith("bestmove"))
            got_uciok = sum(1 for l in out if l == "uciok")
            if rc != 0 or (got_ready, got_best, got_uciok) != (want_ready, want_best, want_uciok):
                res["violations"].append({"kind": "commands-unanswered-when-input-ends-during-a-search", "script": lines, "stdin_encoding": enc, "exit": rc,
                                          "expected (readyok, bestmove, uciok)": [want_ready, want_best, want_uciok], "got": [got_ready, got_best, got_uciok], "stdout_tail": out[-5:]})
            elif len(res["samples"]) < 2:
                res["samples"].append({"script": lines, "stdout_tail": out[-3:], "exit": rc})
    res["distinct_nontrivial"] = len(scripts)
    res["distribution"] = {"blackbox_eof_during_search": {"scripts": len(scripts), "encodings": ["lf", "nofinal", "stdin closed 150 ms after the script was written"]}}
    return res


def step_clock_go(tier, seed, ctx):
    """C12 black-box: a go that names the mover's clock is answered before that clock would run out (plus a fixed tolerance),
    whatever else the command carries (increments, a depth cap after the clocks, the opponent's values) and however small the
    remaining time is — the allocation itself must never lose on time."""
    res = {"name": "blackbox-clock-go", "violations": [], "broken": [], "evaluations": 0, "distinct_nontrivial": 0, "samples": [], "distribution": {}, "spec_compared": 0}
    exe, err = build_engine(ctx)
    if exe is None:
        res["broken"].append("real binary does not build from /repo: " + err)
        return res
    tol_ms = 400
    wfen = "r1bqkbnr/pppp1ppp/2n5/4p3/4P3/5N2/PPPP1PPP/RNBQKB1R w KQkq - 2 3"
    bfen = "r1bqkbnr/pppp1ppp/2n5/4p3/2B1P3/5N2/PPPP1PPP/RNBQK2R b KQkq - 3 3"
    cases = [(wfen, "go wtime 4000 btime 4000", 4000), (wfen, "go wtime 2000 btime 2000 winc 100 binc 100 depth 40", 2000),
             (bfen, "go wtime 60000 btime 1500 winc 0 binc 0", 1500), (wfen, "go wtime 300 btime 300", 300),
             (bfen, "go binc 50 winc 5000 btime 900 wtime 900000", 900), (wfen, "go wtime 0 btime 0", 0), (wfen, "go depth 30 wtime 1200 btime 1200", 1200)]
    # increment-dominated allocation (budget = remaining time - margin) on positions whose score collapses between iterations:
    # the limit the search really enforces must still fit the clock
    vol = "7k/8/8/8/8/7p/P7/K7 w - - 0 1"
    cases += [(vol, "go wtime 1500 btime 1500 winc 5000 binc 5000", 1500)]
    if tier != "quick":
        cases += [("6k1/5ppp/8/8/8/p7/5PPP/6K1 w - - 0 1", "go wtime 2500 winc 9000 btime 2500 binc 9000", 2500)]
    if tier != "quick":
        cases += [(wfen, "go wtime 10000 btime 10000 winc 0 binc 0", 10000), (bfen, "go wtime 1 btime 1 winc 1 binc 1", 1), (wfen, "go movestogo 40 wtime 2500 btime 2500", 2500)]
    # sessions: an earlier go in the same process that finishes long before its budget (depth 1 under a huge clock) must not
    # change what the next clock command may spend (entries: (fen, [earlier commands...], judged command, own clock))
    pre1 = ["go depth 1 wtime 305000 btime 305000", "go depth 2 movetime 60000"]
    cases = [(f, [], c, o) for (f, c, o) in cases] + [(wfen, pre1, "go wtime 1000 btime 1000", 1000)]
    if tier != "quick":
        cases += [(bfen, ["go depth 1 wtime 900000 btime 900000 winc 0 binc 0"], "go wtime 60000 btime 700 winc 0 binc 0", 700)]
    worst = None
    for fen, pre, cmd, own in cases:
        late = []
        for attempt in range(3):
            p = subprocess.Popen([exe], stdin=subprocess.PIPE, stdout=subprocess.PIPE, stderr=subprocess.DEVNULL, text=True, bufsize=1)
            got, dt = None, None
            try:
                p.stdin.write("position fen %s\nisready\n" % fen)
                p.stdin.flush()
                while True:
                    ln = p.stdout.readline()
                    if not ln or ln.strip() == "readyok":
                        break
                for pc in pre:
                    p.stdin.write(pc + "\n")
                    p.stdin.flush()
                    while True:
                        ln = p.stdout.readline()
                        if not ln or ln.startswith("bestmove"):
                            break
                wd = threading.Timer((own + tol_ms) / 1000.0 + 3.0, p.kill)
                wd.start()
                t0 = time.time()
                p.stdin.write(cmd + "\n")
                p.stdin.flush()
                while True:
                    ln = p.stdout.readline()
                    if not ln:
                        break
                    if ln.startswith("bestmove"):
                        got = ln.strip()
                        break
                wd.cancel()
                dt = (time.time() - t0) * 1000.0
            finally:
                try:
                    p.stdin.write("quit\n")
                    p.stdin.flush()
                except Exception:
                    pass
                try:
                    p.wait(timeout=5)
                except Exception:
                    p.kill()
            res["evaluations"] += 1
            res["spec_compared"] += 1
            if got is not None and dt <= own + tol_ms:
                margin = own + tol_ms - dt
                worst = margin if worst is None else min(worst, margin)
                if len(res["samples"]) < 3:
                    res["samples"].append({"fen": fen, "earlier_commands": pre, "command": cmd, "own_clock_ms": own, "answered_after_ms": round(dt, 1), "answer": got})
                late = []
                break
            late.append(None if got is None else round(dt, 1))
        if late:
            res["violations"].append({"kind": "answer-after-own-clock-ran-out", "fen": fen, "earlier_commands": pre, "command": cmd, "own_clock_ms": own, "tolerance_ms": tol_ms,
                                      "answered_after_ms (None = no answer, killed)": late})
    res["distinct_nontrivial"] = len(cases)
    res["distribution"] = {"blackbox_clock_go": {"commands": len(cases), "tolerance_ms": tol_ms, "smallest_margin_ms": None if worst is None else round(worst, 1)}}
    return res


EXPLOSIVE = [
    "8/PPPPPPPP/8/2k5/8/2K5/pppppppp/8 w - - 0 1",
    "r3k2r/p1ppqpb1/bn2pnp1/3PN3/1p2P3/2N2Q1p/PPPBBPPP/R3K2R w KQkq - 0 1",
    "q3k2q/8/8/3QQ3/3qq3/8/8/Q3K2Q w - - 0 1",
    "rnbqkbnr/pppppppp/8/8/8/8/PPPPPPPP/RNBQKBNR w KQkq - 0 1",
    "r4rk1/1pp1qppp/p1np1n2/2b1p1B1/2B1P1b1/P1NP1N2/1PP1QPPP/R4RK1 w - - 0 10",
]


VOLATILE = [
    "6k1/5ppp/8/8/8/p7/5PPP/6K1 w - - 0 1",
    "7k/8/8/8/8/7p/P7/K7 w - - 0 1",
]


def step_latency(tier, seed, ctx):
    """C07 observed part: go movetime T returns within T + a fixed generous bound on positions whose quiescence explodes."""
    res = {"name": "blackbox-latency", "violations": [], "broken": [], "evaluations": 0, "distinct_nontrivial": 0, "samples": [], "distribution": {}, "spec_compared": 0}
    exe, err = build_engine(ctx)
    if exe is None:
        res["broken"].append("real binary does not build from /repo: " + err)
        return res
    bound_ms = 400
    # every session is ONE process: a list of movetime budgets answered one after the other (a long search followed by a
    # short one exposes deadline state that survives from one search to the next)
    sessions = [[20], [60]] if tier == "quick" else [[10], [20], [60], [150], [400]]
    long_short = [[1000, 20]] if tier == "quick" else [[1000, 20], [2500, 10, 60], [600, 600, 5]]
    # a dead-quiet position (locked pawn wall, no capture, promotion or check anywhere near): quiescence nodes have nothing to loop
    # over, so a deadline that is only looked at inside quiescence loops is noticed late
    quiet = "b1b1k1b1/8/8/1p1p1p1p/pPpPpPpP/P1P1P1P1/8/B1B1K1B1 w - - 0 1"
    quiet_sessions = [[1500]] if tier == "quick" else [[700], [1500], [2400]]
    worst = 0.0
    # positions whose score collapses from one iteration to the next (an unstoppable passed pawn seen at depth 3-4): a deadline
    # that is moved while the search runs ("panic time") shows here and nowhere else; one session starts with a clock-mode go
    # (an entry ("raw", command, its budget) is sent as it is and only has to be answered) so that state set by the clock
    # parser is in place for the movetime search that follows
    def vol_after_clock(fen, clock_cmd, clock_budget, budgets):
        # the clock-mode search runs on ANOTHER position, so that the table holds nothing about the volatile one and its
        # iterations really see the score collapse
        return [("send", "position startpos moves e2e4 e7e5"), ("raw", clock_cmd, clock_budget), ("send", "position fen " + fen)] + budgets
    volatile_sessions = [[900]] if tier == "quick" else [[900], [2000]]
    plan_vol = [(fen, sess) for fen in VOLATILE for sess in volatile_sessions]
    plan_vol += [(VOLATILE[0], vol_after_clock(VOLATILE[0], "go wtime 17500 btime 17500", 500, [1200]))]
    if tier != "quick":
        plan_vol += [(VOLATILE[1], vol_after_clock(VOLATILE[1], "go wtime 30000 btime 30000 winc 0 binc 0", 1000, [2000, 700])),
                     (VOLATILE[1], vol_after_clock(VOLATILE[1], "go btime 9000 wtime 17500 binc 100 winc 100", 600, [1500]))]
    plan = [(fen, sess) for fen in EXPLOSIVE for sess in sessions] + [(fen, sess) for fen in (EXPLOSIVE[3], EXPLOSIVE[4]) for sess in long_short] + [(quiet, sess) for sess in quiet_sessions] + \
        plan_vol
    def run_session(fen, sess):
        """one process, the budgets of `sess` one after the other; returns (violation or None, [samples], worst overshoot)"""
        viol, samples, worst_here = None, [], 0.0
        p = subprocess.Popen([exe], stdin=subprocess.PIPE, stdout=subprocess.PIPE, stderr=subprocess.DEVNULL, text=True, bufsize=1)
        try:
            p.stdin.write("position fen %s\nisready\n" % fen)
            p.stdin.flush()
            while True:
                ln = p.stdout.readline()
                if not ln or ln.strip() == "readyok":
                    break
            for idx, t in enumerate(sess):
                raw = None
                if isinstance(t, tuple) and t[0] == "send":   # a line that is not answered (position ...)
                    p.stdin.write(t[1] + "\n")
                    p.stdin.flush()
                    continue
                if isinstance(t, tuple):
                    raw, t = t[1], t[2]
                t0 = time.time()
                # watchdog: an engine that does not answer at all is killed (and reported) instead of blocking the check
                wd = threading.Timer((t + bound_ms) / 1000.0 + 20.0, p.kill)
                wd.start()
                # the budget is a budget however the command spells it: with a (non-binding) depth cap after or before it
                # ... or with other standard go parameters this engine does not implement (they must not disable the budget)
                forms = ["go movetime %d", "go movetime %d depth 60", "go depth 60 movetime %d", "go movetime %d",
                         "go movetime %d nodes 4000000000", "go nodes 4000000000 movetime %d", "go movetime %d mate 9"]
                form = forms[(idx + len(sess) + t + len(fen)) % len(forms)]
                if raw is not None:
                    form = raw.replace("%", "%%")
                p.stdin.write(((form % t) if raw is None else raw) + "\n")
                p.stdin.flush()
                got = None
                while True:
                    ln = p.stdout.readline()
                    if not ln:
                        break
                    if ln.startswith("bestmove"):
                        got = ln.strip()
                        break
                wd.cancel()
                dt = (time.time() - t0) * 1000.0
                over = dt - t
                worst_here = max(worst_here, over)
                if got is None or over > bound_ms:
                    viol = {"kind": "latency", "fen": fen, "session_movetimes_ms": sess, "go_index": idx, "command": (form % t) if raw is None else raw, "movetime_ms": t, "answered_after_ms": round(dt, 1), "bound_ms": t + bound_ms, "answer": got}
                    break
                samples.append({"fen": fen, "session_movetimes_ms": sess, "command": (form % t) if raw is None else raw, "movetime_ms": t, "answered_after_ms": round(dt, 1), "answer": got})
        finally:
            try:
                p.stdin.write("quit\n")
                p.stdin.flush()
            except Exception:
                pass
            try:
                p.wait(timeout=5)
            except Exception:
                p.kill()
        return viol, samples, worst_here

    retried = 0
    for fen, sess in plan:
        # a late answer is reported only when it repeats: a loaded machine produces isolated late answers, a missing or
        # stale deadline check produces them every time
        attempts = []
        for attempt in range(3):
            viol, samples, w = run_session(fen, sess)
            res["evaluations"] += len(sess)
            res["spec_compared"] += len(sess)
            attempts.append((viol, w))
            if viol is None:
                worst = max(worst, w)
                for sm in samples:
                    if len(res["samples"]) < 3:
                        res["samples"].append(sm)
                break
            retried += 1
        if all(v is not None for v, _ in attempts):
            v = attempts[-1][0]
            v["attempts"] = [a[0]["answered_after_ms"] for a in attempts]
            res["violations"].append(v)
            worst = max(worst, max(a[1] for a in attempts))
    budgets = sessions + long_short + quiet_sessions + [[x for x in sess if not isinstance(x, tuple)] for _f, sess in plan_vol]
    res["distinct_nontrivial"] = res["evaluations"]
    res["distribution"] = {"blackbox_latency": {"max_overshoot_ms": round(worst, 1), "bound_ms": bound_ms, "positions": len(EXPLOSIVE), "budgets_ms": budgets, "sessions_repeated_after_a_late_answer": retried}}
    return res
