#!/bin/bash
# seed_import.sh Cxx a|b  — copy an agent's delivered change into /verif/seeded/Cxx<a|b>/ and verify it in the agent's (now idle) worktree
P=$1; X=$2
SRC=/tmp/seedout/$P/$X; DST=/verif/seeded/$P$X
mkdir -p $DST
cp $SRC/patch.diff $DST/; [ -f $SRC/demo.diff ] && cp $SRC/demo.diff $DST/; cp $SRC/run_demo.sh $DST/; cp $SRC/notes.md $DST/ 2>/dev/null
# extra files the demo may need
for f in $SRC/*; do b=$(basename $f); case $b in patch.diff|demo.diff|run_demo.sh|notes.md) ;; *) [ -f $f ] && cp $f $DST/ ;; esac; done
/verif/tools/seed_verify.sh $DST /tmp/seed/$P > $DST/verify.json 2> $DST/.verify.err
cat $DST/verify.json
