// C10: EXHAUSTIVE dump of the slider tables over every subset of every square's relevant mask
// (107 648 entries), all 128 leaper entries, all 64x64 between/line entries, plus random full
// 64-bit occupancies (bits off the mask must not matter).
use crate::common::{Out, Rng};
use crate::ops::ImplState;
use crate::pieces::Piece;

fn subsets(mask: u64, mut f: impl FnMut(u64)) {
    // Carry-Rippler enumeration of all subsets of mask
    let mut sub: u64 = 0;
    loop {
        f(sub);
        sub = sub.wrapping_sub(mask) & mask;
        if sub == 0 { break; }
    }
}

pub fn run(rng: &mut Rng, n: usize, out: &mut Out, exhaustive: bool) {
    let mut st = ImplState::new();
    for sq in 0..64u8 {
        let a = out.run(&mut st, &format!("c10.leaper {}", sq));
        if sq == 27 { out.sample(format!("c10.leaper 27 => {}", a)); }
        out.run(&mut st, &format!("c10.mask R {}", sq));
        out.run(&mut st, &format!("c10.mask B {}", sq));
        for t in 0..64u8 { out.run(&mut st, &format!("c10.between {} {}", sq, t)); out.count("between_pairs"); }
    }
    if exhaustive {
        for sq in 0..64usize {
            let rm = st.mg.lookup.magic_table.rook_attack_masks[sq];
            let bm = st.mg.lookup.magic_table.bishop_attack_masks[sq];
            let mut ops: Vec<String> = Vec::new();
            subsets(rm, |s| ops.push(format!("c10.slide R {} {}", sq, s)));
            subsets(bm, |s| ops.push(format!("c10.slide B {} {}", sq, s)));
            for op in ops { out.run(&mut st, &op); out.count("mask_subsets"); out.nontrivial(&op); }
        }
    }
    for i in 0..n {
        let sq = rng.below(64);
        // random FULL occupancies of several densities
        let occ = match rng.below(4) { 0 => rng.next(), 1 => rng.next() & rng.next(), 2 => rng.next() | rng.next(), _ => rng.next() & rng.next() & rng.next() };
        let p = *rng.pick(&["R", "B", "Q"]);
        let op = format!("c10.slide {} {} {}", p, sq, occ);
        let a = out.run(&mut st, &op);
        out.nontrivial(&op);
        out.count("random_full_occupancies");
        if i < 2 { out.sample(format!("{} => {}", op, a)); }
    }
}
