use std::collections::BTreeMap;
use std::io::Write;

/// splitmix64 / xorshift PRNG: every random choice of a run derives from one seed.
pub struct Rng(pub u64);
impl Rng {
    pub fn new(seed: u64) -> Self { Rng(seed.wrapping_mul(0x9E3779B97F4A7C15) ^ 0xD1B54A32D192ED03) }
    pub fn next(&mut self) -> u64 {
        self.0 = self.0.wrapping_add(0x9E3779B97F4A7C15);
        let mut z = self.0;
        z = (z ^ (z >> 30)).wrapping_mul(0xBF58476D1CE4E5B9);
        z = (z ^ (z >> 27)).wrapping_mul(0x94D049BB133111EB);
        z ^ (z >> 31)
    }
    pub fn below(&mut self, n: u64) -> u64 { if n == 0 { 0 } else { self.next() % n } }
    pub fn range(&mut self, lo: i64, hi: i64) -> i64 { lo + self.below((hi - lo + 1) as u64) as i64 }
    pub fn chance(&mut self, num: u64, den: u64) -> bool { self.below(den) < num }
    pub fn pick<'a, T>(&mut self, xs: &'a [T]) -> &'a T { &xs[self.below(xs.len() as u64) as usize] }
}

/// ops.txt / impl.txt writers + distribution counters (-> stats.json, copied into the evidence).
pub struct Out {
    ops: std::io::BufWriter<std::fs::File>,
    imp: std::io::BufWriter<std::fs::File>,
    dir: std::path::PathBuf,
    pub counters: BTreeMap<String, u64>,
    pub samples: Vec<String>,
    pub n_ops: u64,
    pub distinct: std::collections::HashSet<u64>,
}
impl Out {
    pub fn new(dir: &std::path::Path) -> Self {
        Out {
            ops: std::io::BufWriter::new(std::fs::File::create(dir.join("ops.txt")).unwrap()),
            imp: std::io::BufWriter::new(std::fs::File::create(dir.join("impl.txt")).unwrap()),
            dir: dir.to_path_buf(),
            counters: BTreeMap::new(),
            samples: Vec::new(),
            n_ops: 0,
            distinct: Default::default(),
        }
    }
    /// run one operation on the implementation with panics caught (an edited engine may panic; the panic
    /// becomes that operation's observed outcome instead of killing the run)
    pub fn run(&mut self, st: &mut crate::ops::ImplState, op: &str) -> String {
        let r = std::panic::catch_unwind(std::panic::AssertUnwindSafe(|| st.apply(op)));
        let a = match r { Ok(a) => a, Err(_) => { *st = crate::ops::ImplState::new(); "panic".to_string() } };
        self.op(op, &a);
        a
    }
    /// one operation and the implementation's answer to it
    pub fn op(&mut self, op: &str, answer: &str) {
        debug_assert!(!op.contains('\n') && !answer.contains('\n'));
        writeln!(self.ops, "{}", op).unwrap();
        writeln!(self.imp, "{}", answer).unwrap();
        self.n_ops += 1;
    }
    pub fn count(&mut self, key: &str) { *self.counters.entry(key.to_string()).or_insert(0) += 1; }
    pub fn add(&mut self, key: &str, v: u64) { *self.counters.entry(key.to_string()).or_insert(0) += v; }
    pub fn sample(&mut self, s: String) { if self.samples.len() < 5 { self.samples.push(s); } }
    /// register a non-trivial case by a hash of its content (distinct_nontrivial is |set|)
    pub fn nontrivial(&mut self, content: &str) {
        use std::hash::{Hash, Hasher};
        let mut h = std::collections::hash_map::DefaultHasher::new();
        content.hash(&mut h);
        self.distinct.insert(h.finish());
    }
    pub fn finish(mut self) {
        self.ops.flush().unwrap();
        self.imp.flush().unwrap();
        let mut s = String::from("{\n");
        s += &format!("  \"ops\": {},\n  \"distinct_nontrivial\": {},\n", self.n_ops, self.distinct.len());
        s += "  \"counters\": {";
        let mut first = true;
        for (k, v) in &self.counters {
            if !first { s += ","; }
            first = false;
            s += &format!("\n    {}: {}", json_str(k), v);
        }
        s += "\n  },\n  \"samples\": [";
        let mut first = true;
        for x in &self.samples {
            if !first { s += ","; }
            first = false;
            s += &format!("\n    {}", json_str(x));
        }
        s += "\n  ]\n}\n";
        std::fs::write(self.dir.join("stats.json"), s).unwrap();
    }
}

pub fn json_str(s: &str) -> String {
    let mut o = String::from("\"");
    for c in s.chars() {
        match c {
            '"' => o += "\\\"",
            '\\' => o += "\\\\",
            '\n' => o += "\\n",
            '\t' => o += "\\t",
            c if (c as u32) < 0x20 => o += &format!("\\u{:04x}", c as u32),
            c => o.push(c),
        }
    }
    o.push('"');
    o
}
