// C15: random store/retrieve sequences on the real TranspositionTable.
use crate::common::{Out, Rng};
use crate::moves::Move;
use crate::ops::ImplState;
use crate::text::*;

pub fn run(rng: &mut Rng, n: usize, out: &mut Out) {
    let mut st = ImplState::new();
    for case in 0..n {
        out.op("tt.new", &st.apply("tt.new"));
        let nkeys = 1 + rng.below(8);
        // small key space so operations on one key actually collide; keys themselves are spread over u64
        let keys: Vec<u64> = (0..nkeys).map(|i| if rng.chance(1, 4) { i } else { rng.next() }).collect();
        let len = 1 + rng.below(60) as usize;
        let maxd = 1 + rng.below(6);
        let mut trace = String::new();
        let (mut kept, mut replaced, mut equal) = (0, 0, 0);
        for _ in 0..len {
            let k = *rng.pick(&keys);
            if rng.chance(3, 5) {
                let eval = match rng.below(6) { 0 => i32::MIN, 1 => i32::MAX, 2 => 0, _ => rng.range(-40000, 40000) as i32 };
                let mv = if rng.chance(1, 4) { None } else {
                    Some(Move::new(rng.below(64) as u8, rng.below(64) as u8, *rng.pick(&PIECES), *rng.pick(&KINDS)))
                };
                let depth = if rng.chance(1, 20) { 255 } else { rng.below(maxd) as u8 };
                let b = *rng.pick(&BOUNDS);
                let before = st.tt.retrieve(k).map(|e| e.depth);
                match before { Some(d) if d > depth => kept += 1, Some(d) if d == depth => equal += 1, Some(_) => replaced += 1, None => {} }
                let op = format!("tt.store {} {} {} {} {}", k, eval, opt_mv_text(&mv), depth, bounds_name(b));
                trace += &op; trace.push(';');
                let a = out.run(&mut st, &op);
            } else {
                let probe = if rng.chance(1, 10) { rng.next() } else { k };
                let op = format!("tt.get {}", probe);
                trace += &op; trace.push(';');
                let a = out.run(&mut st, &op);
            }
        }
        out.add("stores_kept_older_deeper", kept);
        out.add("stores_replaced_shallower", replaced);
        out.add("stores_equal_depth", equal);
        out.add(&format!("keys_{}", nkeys), 1);
        if kept > 0 && (replaced > 0 || equal > 0) { out.nontrivial(&trace); }
        if case < 3 { out.sample(trace.chars().take(300).collect()); }
    }
}
