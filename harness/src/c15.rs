// C15: random store/retrieve sequences on the real TranspositionTable.
use crate::common::{Out, Rng};
use crate::moves::Move;
use crate::ops::ImplState;
use crate::text::*;

/// a table holding more than a million records: deepest-wins must keep working for keys already present AND for new keys
/// (capacity limits, "table full" guards and eviction schemes only show at this size)
pub fn run_big(rng: &mut Rng, n: usize, out: &mut Out) {
    let mut st = ImplState::new();
    out.op("tt.new", &st.apply("tt.new"));
    let k0 = 1_000_000_000u64 + rng.below(1 << 40);
    let count = n as u64;
    out.run(&mut st, &format!("tt.fill {} {} 3", k0, count));
    out.add("records_in_big_table", count);
    let mut trace = String::new();
    for i in 0..60u64 {
        // keys inside the filled range, at its ends, and new ones
        let k = match i % 4 { 0 => k0 + rng.below(count), 1 => k0 + count - 1 - rng.below(50.min(count)), 2 => k0 + rng.below(50.min(count)), _ => rng.next() };
        out.run(&mut st, &format!("tt.get {}", k));
        let depth = *rng.pick(&[0u8, 2, 3, 3, 4, 7]);
        let op = format!("tt.store {} {} - {} {}", k, rng.range(-30000, 30000), depth, bounds_name(*rng.pick(&BOUNDS)));
        out.run(&mut st, &op);
        trace += &op; trace.push(';');
        out.run(&mut st, &format!("tt.get {}", k));
        out.count(match depth { 0 | 2 => "big_table_shallower_store", 3 => "big_table_equal_depth_store", _ => "big_table_deeper_store" });
    }
    out.nontrivial(&trace);
    out.sample(trace.chars().take(200).collect());
}

pub fn run(rng: &mut Rng, n: usize, out: &mut Out) {
    let mut st = ImplState::new();
    for case in 0..n {
        out.op("tt.new", &st.apply("tt.new"));
        let nkeys = 1 + rng.below(8);
        // small key space so operations on one key actually collide; keys themselves are spread over u64
        // ... or near-identical keys: a base key and keys differing from it in one bit / one byte / one half (an index or
        // a comparison that drops some bits of the key shows only on such neighbours)
        let base = rng.next();
        let near = rng.chance(1, 3);
        let keys: Vec<u64> = (0..nkeys).map(|i| {
            if near {
                match rng.below(5) { 0 => base, 1 => base ^ (1u64 << rng.below(64)), 2 => base ^ (0xffu64 << (8 * rng.below(8))), 3 => base ^ (rng.below(1 << 16) << (16 * rng.below(4))), _ => base ^ (1u64 << rng.below(64)) ^ (1u64 << rng.below(64)) }
            } else if rng.chance(1, 4) { i } else { rng.next() }
        }).collect();
        let len = 1 + rng.below(60) as usize;
        let maxd = 1 + rng.below(6);
        let mut trace = String::new();
        let (mut kept, mut replaced, mut equal) = (0, 0, 0);
        for _ in 0..len {
            let k = *rng.pick(&keys);
            if rng.chance(3, 5) {
                // scores: extremes, zero, ordinary values, the window bounds, and MATE scores (the engine's checkmate constant
                // i32::MAX - 1000, minus a mate distance) of either sign — anything special-cased by value shows here
                let eval = match rng.below(9) { 0 => i32::MIN, 1 => i32::MAX, 2 => 0,
                    3 => (i32::MAX - 1000) - rng.below(70) as i32, 4 => -(i32::MAX - 1000) + rng.below(70) as i32,
                    5 => *rng.pick(&[32767, -32767, 32766, -32768, 1, -1]),
                    _ => rng.range(-40000, 40000) as i32 };
                let mv = if rng.chance(1, 4) { None } else {
                    Some(Move::new(rng.below(64) as u8, rng.below(64) as u8, *rng.pick(&PIECES), *rng.pick(&KINDS)))
                };
                let depth = if rng.chance(1, 20) { 255 } else { rng.below(maxd) as u8 };
                let b = *rng.pick(&BOUNDS);
                let before = st.tt.retrieve(k).map(|e| e.depth);
                match before { Some(d) if d > depth => kept += 1, Some(d) if d == depth => equal += 1, Some(_) => replaced += 1, None => {} }
                let op = format!("tt.store {} {} {} {} {}", k, eval, opt_mv_text(&mv), depth, bounds_name(b));
                trace += &op; trace.push(';');
                let a = out.run(&mut st, &op);
            } else {
                let probe = if rng.chance(1, 10) { rng.next() } else { k };
                let op = format!("tt.get {}", probe);
                trace += &op; trace.push(';');
                let a = out.run(&mut st, &op);
            }
        }
        out.add("stores_kept_older_deeper", kept);
        out.add("stores_replaced_shallower", replaced);
        out.add("stores_equal_depth", equal);
        out.add(&format!("keys_{}", nkeys), 1);
        if kept > 0 && (replaced > 0 || equal > 0) { out.nontrivial(&trace); }
        if case < 3 { out.sample(trace.chars().take(300).collect()); }
    }
}
