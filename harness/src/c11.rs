// C11: hashing under freshly drawn keys; counters, transpositions, single-component edits.
use crate::board::Board;
use crate::common::{Out, Rng};
use crate::ops::ImplState;
use crate::pieces::{Color, Piece};
use crate::posgen::{self, Gen};
use crate::text::*;

pub fn run(rng: &mut Rng, n: usize, out: &mut Out) {
    let mut st = ImplState::new();
    let g = Gen::new();
    let per_draw = 40;
    let mut i = 0;
    while i < n {
        // a REAL key draw by the engine's own constructor; the op carries the drawn keys to the driver
        let fresh = crate::zobrist::ZobristTable::new();
        let op = format!("zob.keys {}", crate::ops::zobrist_keys_text(&fresh));
        let a = out.run(&mut st, &op);
        out.count("key_draws");
        for _ in 0..per_draw {
            i += 1;
            let b = if rng.chance(1, 6) { g.malformed(rng) } else { g.valid_position(rng, out) };
            let bt = board_text(&b);
            let op = format!("zob.hash {}", bt);
            let h = st.apply(&op);
            out.nontrivial(&bt);
            if i <= 3 { out.sample(format!("{} => {}", op.chars().take(160).collect::<String>(), h)); }
            out.op(&op, &h);
            // counters must not matter
            let mut c = b; c.halfmove_clock = (rng.below(250)) as _; c.fullmove_counter = (rng.below(250)) as _;
            let op = format!("zob.same {} {}", bt, board_text(&c));
            let a = out.run(&mut st, &op); out.count("counter_variants");
            // single-component edits: side, one right, ep, one man removed / recoloured / retyped / moved
            let mut edits: Vec<Board> = Vec::new();
            let mut e = b; e.change_color(); edits.push(e);
            for bit in 0..4u8 {
                let (wk, wq) = b.castling_ability(Color::White); let (bk, bq) = b.castling_ability(Color::Black);
                let mask = ((wk as u8) | (wq as u8) << 1 | (bk as u8) << 2 | (bq as u8) << 3) ^ (1 << bit);
                let mut e = b; e.castling_ability = crate::board::Castle::new(mask & 1 != 0, mask & 2 != 0, mask & 4 != 0, mask & 8 != 0); edits.push(e);
            }
            let mut e = b; e.en_passant_target = match b.en_passant_target { None => Some(rng.below(64) as u8), Some(s) => if rng.chance(1, 2) { None } else { Some((s + 1 + rng.below(62) as u8) % 64) } }; edits.push(e);
            if let Some(m) = crate::refchess::mailbox(&b) {
                let occ: Vec<usize> = (0..64).filter(|s| m[*s].is_some()).collect();
                if !occ.is_empty() {
                    let s = *rng.pick(&occ); let (c, p) = m[s].unwrap();
                    let mut e = b; e.remove_piece(c, p, s as u8); edits.push(e);
                    let mut e = b; e.remove_piece(c, p, s as u8); e.add_piece(!c, p, s as u8); edits.push(e);
                    let q = PIECES[(p.index() + 1 + rng.below(5) as usize) % 6];
                    let mut e = b; e.remove_piece(c, p, s as u8); e.add_piece(c, q, s as u8); edits.push(e);
                    let empty: Vec<usize> = (0..64).filter(|s| m[*s].is_none()).collect();
                    if !empty.is_empty() { let t = *rng.pick(&empty); let mut e = b; e.remove_piece(c, p, s as u8); e.add_piece(c, p, t as u8); edits.push(e); }
                }
            }
            for e in edits {
                let op = format!("zob.diff {} {}", bt, board_text(&e));
                let a = out.run(&mut st, &op); out.count("single_component_edits");
            }
        }
        // transpositions: two move orders reaching the same position
        for _ in 0..6 {
            let b = g.playout(rng, 30);
            let ms = g.mg.generate_moves(&b);
            if ms.len() < 2 { continue; }
            let (m1, m2) = (*rng.pick(&ms), *rng.pick(&ms));
            // a1 then (reply) then a2 vs a2, reply, a1 when both orders are legal and transpose
            let b1 = b.clone_with_move(&m1);
            let replies = g.mg.generate_moves(&b1);
            if replies.is_empty() { continue; }
            let r = *rng.pick(&replies);
            let b1r = b1.clone_with_move(&r);
            let b2 = b.clone_with_move(&m2);
            if !g.mg.generate_moves(&b2).contains(&r) { continue; }
            let b2r = b2.clone_with_move(&r);
            if !g.mg.generate_moves(&b1r).contains(&m2) || !g.mg.generate_moves(&b2r).contains(&m1) { continue; }
            let x = b1r.clone_with_move(&m2); let y = b2r.clone_with_move(&m1);
            if board_text(&x) != board_text(&y) { continue; }
            let op = format!("zob.same {} {}", board_text(&x), board_text(&y));
            let a = out.run(&mut st, &op); out.count("transpositions");
        }
    }
}
