// Generator of UCI scripts for the black-box runs against the real binary (C16, C03, C13).
// Output file scripts.txt, one script per line:
//     <line>;;<line>;;...<TAB><board text at 1st go>|<board text at 2nd go>|...
use crate::board::Board;
use crate::common::Rng;
use crate::moves::{Move, MoveType};
use crate::posgen::{self, Gen};
use crate::text::*;
use std::io::Write;

fn junk(rng: &mut Rng) -> String {
    // unknown words, near-misses of the six commands, wrong case, and non-ASCII text (none of these characters is white
    // space for Rust's split_whitespace/trim: U+FEFF byte-order mark, accented letters, arrows, emoji, ligatures)
    rng.pick(&["", " ", "\t", "   ", "hello", "UCI", "Uci", "isready?", "stop", "ponderhit", "setoption name Hash value 16", "debug on", "register later",
               "go_depth 3", "positions startpos", "quitt", "xyzzy 1 2 3", "d", "eval", "?", "ucinewgamee", "bestmove e2e4",
               "QUIT", "Quit now", "ISREADY", "Position startpos", "GO depth 1", "uciok", "readyok",
               "\u{feff}xyzzy", "\u{feff}uci", "\u{feff}isready", "\u{feff}", "uci\u{feff}", "\u{e9}chec", "\u{2192} go depth 1", "uc\u{ef}", "\u{1f642} isready", "\u{fb01}sready",
               "\u{4f4d}\u{7f6e} startpos", "quit\u{301}", "\u{0}", "a\u{0}b", "\u{7f}uci", "-", "--help", "'uci'", "\"isready\"",
               "xxxxxxxxxxxxxxxxxxxxxxxxxxxxxxxxxxxxxxxxxxxxxxxxxxxxxxxxxxxxxxxxxxxxxxxxxxxxxxxxxxxxxxxxxxxxxxxxxxxxxxxxxxxxxxxxxxxxxxxxxxxxxxxxxxxxxxxxxxxxxxxxxxxxxxxxxxxxxxxxxxxxxxxxxxxxxxxxxxxxxxxxxxxxxxxxxxxxxxxxxxxxxxxxxxxxxxxxxxxxxxxxxxxxxxxxxxxxxxxxxxxxxxxxxxxxxxxxxxxxxxxxxxxxxxxxxxxxxxxxxxxxxxxxxxxxxxxxxxxxxxxxx"]).to_string()
}

/// a very long unknown line with a command word starting exactly at a buffer-size boundary (a reader that chops long
/// lines turns the tail into a command of its own)
fn long_junk(rng: &mut Rng) -> String {
    let at = *rng.pick(&[256usize, 512, 1024, 2048, 4096, 4096, 4096, 8192, 16384, 32768, 65536]) + *rng.pick(&[0usize, 0, 0, 1, 2]) ;
    let word = *rng.pick(&["isready", "uci", "quit", "isready", "go depth 1", "ucinewgame"]);
    let mut l = String::with_capacity(at + 16);
    l.push('q');
    while l.len() + 1 < at { l.push(if l.len() % 97 == 0 { ' ' } else { 'x' }); }
    l.push(' ');
    l.push_str(word);
    l
}

pub fn run(rng: &mut Rng, n: usize, outdir: &std::path::Path, flavour: &str) {
    let g = Gen::new();
    let mut f = std::io::BufWriter::new(std::fs::File::create(outdir.join("scripts.txt")).unwrap());
    for _ in 0..n {
        let mut lines: Vec<String> = Vec::new();
        let mut boards: Vec<String> = Vec::new();
        let mut cur = Board::default();
        // the last position command of this script (start, text of the start, moves): a GUI sends the same game again with more
        // moves — also right after ucinewgame
        let mut last_pos: Option<(Board, String, Vec<Move>)> = None;
        let ncmd = 2 + rng.below(10);
        for _ in 0..ncmd {
            match rng.below(if flavour == "handshake" { 6 } else { 10 }) {
                0 => lines.push("uci".into()),
                1 => lines.push("isready".into()),
                2 => lines.push(if rng.chance(1, 6) { long_junk(rng) } else { junk(rng) }),
                3 => lines.push(rng.pick(&["  isready  ", "\tuci", "uci now please", "isready 1 2 3", "isready\t", " \t uci \t ", "uci uci", "isready isready quit"]).to_string()),
                4 => {
                    lines.push("ucinewgame".into());
                    cur = Board::default();
                    // the same game sent again right after the new game, one move longer (or exactly as before)
                    if let Some((ls, ltxt, lm)) = last_pos.clone() {
                        if rng.chance(1, 2) {
                            let mut b = ls;
                            for m in &lm { b.make_move(m); }
                            let mut played = lm.clone();
                            if rng.chance(3, 4) { let ms = g.mg.generate_moves(&b); if !ms.is_empty() { let m = *rng.pick(&ms); played.push(m); b.make_move(&m); } }
                            let mut line = ltxt.clone();
                            if !played.is_empty() { line += " moves"; for m in &played { line += " "; line += &uci_text(m); } }
                            lines.push(line);
                            if rng.chance(1, 2) { lines.push("isready".into()); }
                            cur = b;
                            last_pos = Some((ls, ltxt, played));
                        }
                    }
                }
                5 => lines.push(junk(rng)),
                6 | 7 => {
                    // a position command: startpos or FEN, with a legal game; keep the trees small for the depth-limited go
                    if let Some((ls, ltxt, lm)) = last_pos.clone() {
                        if rng.chance(1, 3) {
                            // the previous game again, one to three plies longer
                            let mut b = ls;
                            for m in &lm { b.make_move(m); }
                            let mut played = lm.clone();
                            for _ in 0..(1 + rng.below(3)) {
                                let ms = g.mg.generate_moves(&b);
                                if ms.is_empty() { break; }
                                let m = *rng.pick(&ms);
                                played.push(m); b.make_move(&m);
                            }
                            let mut line = ltxt.clone();
                            if !played.is_empty() { line += " moves"; for m in &played { line += " "; line += &uci_text(m); } }
                            lines.push(line);
                            cur = b;
                            last_pos = Some((ls, ltxt, played));
                            continue;
                        }
                    }
                    let use_startpos = rng.chance(1, 2);
                    let start = if use_startpos { Board::default() } else {
                        let mut b = loop { if let Some(b) = crate::csearch::small_position(&g, rng) { break b; } };
                        if rng.chance(1, 3) { b = Board::new(*rng.pick(posgen::CORPUS)); }
                        // forced replies (exactly one legal move) and positions without a legal move are where shortcuts live
                        if rng.chance(1, 5) { if let Some(f) = crate::csearch::single_reply_position(&g, rng) { b = f; } }
                        if rng.chance(1, 12) { b = Board::new(*rng.pick(&["7k/5Q2/6K1/8/8/8/8/8 b - - 0 1", "7k/6Q1/6K1/8/8/8/8/8 b - - 0 1", "k7/8/1K6/8/8/8/8/R7 b - - 0 1", "7k/8/2p1n1p1/3pP3/4K3/r7/8/8 w - d6 0 2", "8/8/R7/4k3/3Pp3/2P1N1P1/8/7K b - d3 0 2", "r3k3/8/8/3b4/8/8/8/R3K3 w q - 0 1", "4k2r/6K1/8/8/8/8/8/8 b k - 0 1"])); }
                        if !crate::refchess::valid(&b) { Board::default() } else { b }
                    };
                    let mut b = start;
                    let mut played: Vec<Move> = Vec::new();
                    // one game in three shuffles pieces back and forth, so that the position searched (and its successors)
                    // already occurred in the history given with the command
                    let shuffle = rng.chance(1, 3);
                    // now and then a game so long that its command line exceeds any small fixed buffer (> 4096 and > 8192 bytes)
                    let very_long = shuffle && rng.chance(1, 8);
                    let keep_start = !use_startpos && g.mg.generate_moves(&start).len() <= 1;
                    for _ in 0..(if keep_start { 0 } else if very_long { 850 + rng.below(900) } else if shuffle { 4 + rng.below(10) } else { rng.below(12) }) {
                        let ms = g.mg.generate_moves(&b);
                        if ms.is_empty() { break; }
                        let m = if shuffle && played.len() >= 2 && rng.chance(4, 5) {
                            let prev = played[played.len() - 2];
                            match ms.iter().find(|x| x.from == prev.to && x.to == prev.from && x.piece_type == prev.piece_type && x.move_type == MoveType::Quiet) { Some(x) => *x, None => *rng.pick(&ms) }
                        } else if shuffle {
                            let quiet: Vec<&Move> = ms.iter().filter(|x| x.move_type == MoveType::Quiet && x.piece_type != crate::pieces::Piece::Pawn).collect();
                            if !quiet.is_empty() { **rng.pick(&quiet) } else { *rng.pick(&ms) }
                        } else {
                            let corner: Vec<&Move> = ms.iter().filter(|x| x.move_type == MoveType::Capture && [0u8, 7, 56, 63].contains(&x.to)).collect();
                            if !corner.is_empty() && rng.chance(2, 3) { **rng.pick(&corner) } else { *rng.pick(&ms) }
                        };
                        played.push(m);
                        b.make_move(&m);
                    }
                    let mut line = if start.bb_all() == Board::default().bb_all() && use_startpos { "position startpos".to_string() } else { format!("position fen {}", fen_of(&start)) };
                    let head = line.clone();
                    if !played.is_empty() { line += " moves"; for m in &played { line += " "; line += &uci_text(m); } }
                    lines.push(line);
                    cur = b;
                    if played.len() < 40 { last_pos = Some((start, head, played.clone())); }
                }
                _ => {
                    // go: depth-limited (deterministic) or with a time budget (only the flavour "timed" uses those)
                    let line = if flavour == "timed" {
                        match rng.below(6) { 0 => "go movetime 0".to_string(), 1 => "go movetime 1".into(), 2 => "go movetime 5".into(), 3 => format!("go wtime {} btime {}", rng.below(6000), rng.below(6000)),
                                             4 => format!("go wtime {} btime {} winc {} binc {}", rng.below(7000), rng.below(7000), rng.below(50), rng.below(50)), _ => "go movetime 30".into() }
                    } else {
                        // depth-limited go only as deep as the (fresh-searcher) tree stays small: the Lean model replays it
                        let mut depth = 1 + rng.below(3) as u8;
                        while depth > 0 && nodes_capped(&cur, depth, 6000) >= 6000 { depth -= 1; }
                        match rng.below(8) { 0 => "go movetime 0".to_string(), 1 => "go depth 1 movetime 0".into(), 2 => "go wtime 4000 btime 4000".into(),
                                             _ => if depth == 0 { "go movetime 0".to_string() } else { format!("go depth {}", depth) } }
                    };
                    lines.push(line);
                    boards.push(board_text(&cur));
                }
            }
        }
        if flavour != "noquit" && rng.chance(2, 3) {
            lines.push(rng.pick(&["quit", "quit", " quit ", "quit now", "quit\t0"]).to_string());
            if rng.chance(1, 3) { lines.push("isready".into()); }
        }
        let lines: Vec<String> = lines.into_iter().map(|l| l.replace(";;", "")).collect();
        writeln!(f, "{} @@BOARDS@@ {}", lines.join(";;"), boards.join("|")).unwrap();
    }
}

/// nodes a fresh searcher spends on `go depth d` (capped)
fn nodes_capped(b: &Board, d: u8, cap: u64) -> u64 {
    let mut s = crate::search::Searcher::new();
    s.verif_set_node_limit(Some(cap));
    s.find_best_move(b, d, Some(std::time::Duration::from_secs(3600)));
    s.verif_timer().nodes()
}
