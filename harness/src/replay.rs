// `harness replay`: read operations from stdin and answer each with the implementation's output
// (used by ./check <id> --replay).  Every generator's operations are handled by `apply`.
use crate::common::Out;
use std::io::BufRead;

pub fn run() {
    let stdin = std::io::stdin();
    let mut st = crate::ops::ImplState::new();
    for line in stdin.lock().lines() {
        let line = line.unwrap();
        let ans = st.apply(&line);
        println!("{}", ans);
    }
}
