// Generators for the search properties (C03 C05 C06 C07 C08 C13) through the in-process hooks.
use crate::board::Board;
use crate::common::{Out, Rng};
use crate::moves::{Move, MoveType};
use crate::ops::{zobrist_keys_text, ImplState};
use crate::pieces::{Color, Piece};
use crate::posgen::{self, Gen};
use crate::text::*;

/// small-material families with few checks (DESIGN.md C05): kings + pawns + at most a couple of pieces
pub fn small_position(g: &Gen, rng: &mut Rng) -> Option<Board> {
    let mut occ = [None::<(Color, Piece)>; 64];
    let wk = rng.below(64) as usize;
    let mut bk = rng.below(64) as usize;
    let dist = |a: usize, b: usize| ((a / 8) as i32 - (b / 8) as i32).abs().max(((a % 8) as i32 - (b % 8) as i32).abs());
    let mut tries = 0;
    while dist(wk, bk) < 2 { bk = rng.below(64) as usize; tries += 1; if tries > 100 { return None; } }
    occ[wk] = Some((Color::White, Piece::King));
    occ[bk] = Some((Color::Black, Piece::King));
    let npawns = rng.below(5) as usize;
    for _ in 0..npawns {
        let s = 8 + rng.below(48) as usize;
        if occ[s].is_none() { occ[s] = Some((if rng.chance(1, 2) { Color::White } else { Color::Black }, Piece::Pawn)); }
    }
    let npieces = rng.below(3) as usize;
    for _ in 0..npieces {
        let s = rng.below(64) as usize;
        if occ[s].is_none() {
            let p = *rng.pick(&[Piece::Knight, Piece::Bishop, Piece::Rook, Piece::Queen]);
            occ[s] = Some((if rng.chance(1, 2) { Color::White } else { Color::Black }, p));
        }
    }
    let mut pcs = [0u64; 6];
    let (mut white, mut black) = (0u64, 0u64);
    for s in 0..64 { if let Some((c, p)) = occ[s] { pcs[p.index()] |= 1 << s; if c == Color::White { white |= 1 << s } else { black |= 1 << s } } }
    let side = if rng.chance(1, 2) { Color::White } else { Color::Black };
    let b = board_from_raw(pcs, white, black, side, 0, None, 0, 1)?;
    if crate::refchess::valid(&b) { Some(b) } else { None }
}

/// a pawn one step from promotion whose promotion to a QUEEN stalemates the opponent (so that an under-promotion is the
/// only way to keep the win): the value of the position depends on the rook / bishop / knight promotions being searched
pub fn underpromotion_position(g: &Gen, rng: &mut Rng) -> Option<Board> {
    for _ in 0..6000 {
        let mut occ = [None::<(Color, Piece)>; 64];
        let white = rng.chance(1, 2);
        let (me, opp) = if white { (Color::White, Color::Black) } else { (Color::Black, Color::White) };
        let seventh = if white { 6usize } else { 1 };
        let pf = rng.below(8) as usize;
        occ[seventh * 8 + pf] = Some((me, Piece::Pawn));
        // the defending king near the promotion corner, mine near it
        let near = |c: usize, rng: &mut Rng| -> usize { let r = (c / 8) as i32 + rng.below(5) as i32 - 2; let f = (c % 8) as i32 + rng.below(5) as i32 - 2; (r.clamp(0, 7) * 8 + f.clamp(0, 7)) as usize };
        let target = (if white { 7 } else { 0 }) * 8 + pf;
        let ok = near(target, rng);
        let mk = near(ok, rng);
        if occ[ok].is_some() || occ[mk].is_some() || ok == mk { continue; }
        occ[ok] = Some((opp, Piece::King));
        occ[mk] = Some((me, Piece::King));
        if rng.chance(1, 3) { let s = 8 + rng.below(48) as usize; if occ[s].is_none() { occ[s] = Some((if rng.chance(1, 2) { me } else { opp }, Piece::Pawn)); } }
        let mut pcs = [0u64; 6];
        let (mut wbb, mut bbb) = (0u64, 0u64);
        for s in 0..64 { if let Some((c, p)) = occ[s] { pcs[p.index()] |= 1 << s; if c == Color::White { wbb |= 1 << s } else { bbb |= 1 << s } } }
        let b = match board_from_raw(pcs, wbb, bbb, me, 0, None, 0, 1) { Some(b) => b, None => continue };
        if !crate::refchess::valid(&b) { continue; }
        let ms = g.mg.generate_moves(&b);
        let stalemating_queen = ms.iter().any(|m| m.move_type == MoveType::Promotion && m.piece_type == Piece::Queen && {
            let c = b.clone_with_move(m); g.mg.generate_moves(&c).is_empty() && !g.mg.is_in_check(&c) });
        if stalemating_queen { return Some(b); }
    }
    None
}

/// quiescence tree size of `b` measured by the engine itself under a node cap (None = above the cap)
pub fn qsize(st: &mut ImplState, b: &Board, cap: u64) -> Option<u64> {
    let s = &mut st.searcher;
    s.verif_set_node_limit(Some(cap));
    s.verif_quiescence(b, -32767, 32767);
    let n = s.verif_timer().nodes();
    s.verif_set_node_limit(None);
    if n >= cap { None } else { Some(n) }
}

fn fresh_keys(st: &mut ImplState, out: &mut Out) {
    let z = crate::zobrist::ZobristTable::new();
    let op = format!("s.new {}", zobrist_keys_text(&z));
    out.run(st, &op);
    out.run(st, "s.keysgood");
    out.count("fresh_searchers");
}

/// total nodes of a completed search (fresh searcher) — used to place deadlines at every node count
fn search_nodes(st: &mut ImplState, b: &Board, d: u8) -> u64 {
    let (pk, w, ck, ek) = st.searcher.verif_zobrist().verif_keys();
    let mut s = crate::search::Searcher::new();
    s.verif_set_zobrist(crate::zobrist::ZobristTable::verif_from_keys(pk, w, ck, ek));
    s.find_best_move(b, d, None);
    s.verif_timer().nodes()
}

/// a position in which the side to move has exactly ONE legal move (forced replies are a classic place for shortcuts)
pub fn single_reply_position(g: &Gen, rng: &mut Rng) -> Option<Board> {
    for _ in 0..4000 {
        let cand = if rng.chance(1, 2) { small_position(g, rng) } else { Some(g.playout(rng, 100)) };
        if let Some(b) = cand {
            if crate::refchess::valid(&b) && g.mg.generate_moves(&b).len() == 1 { return Some(b); }
        }
    }
    None
}

/// the move counters are part of the position text the engine is given; nothing the search concludes may depend on them
pub fn vary_counters(b: &mut Board, rng: &mut Rng) {
    if rng.chance(1, 2) {
        b.halfmove_clock = *rng.pick(&[0u32, 1, 13, 14, 49, 50, 97, 98, 99, 100, 101, 150, 500]) as _;
        b.fullmove_counter = *rng.pick(&[1u32, 2, 40, 80, 255, 256, 3000]) as _;
    }
}

/// nodes a FRESH searcher spends on a completed depth-`d` search of `b`, capped (the cap is a node-budget deadline)
pub fn nodes_capped(b: &Board, d: u8, cap: u64) -> u64 {
    let mut s = crate::search::Searcher::new();
    s.verif_set_node_limit(Some(cap));
    s.find_best_move(b, d, Some(std::time::Duration::from_secs(3600)));
    s.verif_timer().nodes()
}

/// the largest depth <= d at which a fresh search of `b` stays under `cap` nodes (0 = not even depth 1): quiescence
/// follows every check without a depth limit, so a few plies in a middlegame can be millions of nodes — such searches are
/// neither replayable by the (much slower) model nor needed
pub fn affordable_depth(b: &Board, d: u8, cap: u64) -> u8 {
    let mut d = d;
    while d > 0 && nodes_capped(b, d, cap) >= cap { d -= 1; }
    d
}

pub fn pick_search_position(g: &Gen, st: &mut ImplState, rng: &mut Rng, out: &mut Out, qcap: u64) -> Board {
    loop {
        let cand = if rng.chance(1, 12) { let c = underpromotion_position(g, rng); if c.is_some() { out.count("underpromotion_needed_candidates"); } c }
                   else if rng.chance(1, 8) { let c = single_reply_position(g, rng); if c.is_some() { out.count("single_reply_candidates"); } c }
                   else if rng.chance(3, 4) { small_position(g, rng) } else { Some(g.playout(rng, 80)) };
        if let Some(mut b) = cand {
            vary_counters(&mut b, rng);
            if !crate::refchess::valid(&b) { continue; }
            match qsize(st, &b, qcap) {
                Some(_) => { out.count("search_pos_accepted"); return b; }
                None => { out.count("search_pos_rejected_qtree_above_cap"); }
            }
        }
    }
}

/// do all successors to depth `d` have quiescence trees under the cap (so the reference minimax is computable)?
fn subtree_q_ok(g: &Gen, st: &mut ImplState, b: &Board, d: u8, qcap: u64, budget: &mut i64) -> bool {
    *budget -= 1;
    if *budget < 0 { return false; }
    if d == 0 { return qsize(st, b, qcap).is_some(); }
    for m in g.mg.generate_moves(b) {
        if !subtree_q_ok(g, st, &b.clone_with_move(&m), d - 1, qcap, budget) { return false; }
    }
    true
}

pub fn run(rng: &mut Rng, n: usize, out: &mut Out, which: &str) {
    let mut st = ImplState::new();
    let g = Gen::new();
    let mut case = 0;
    while case < n {
        case += 1;
        out.op(&format!("case {}", case), "ok");
        if which == "c05" { out.run(&mut st, "impl.viafen on"); }
        fresh_keys(&mut st, out);
        match which {
            // ------------------------------------------------------------------ C13 tie: full result incl. node counts and TT digest
            "tie" => {
                for _ in 0..(1 + rng.below(4)) {
                    let b = if rng.chance(1, 3) { g.playout(rng, 40) } else { pick_search_position(&g, &mut st, rng, out, 3000) };
                    if qsize(&mut st, &b, 20000).is_none() { out.count("skipped_explosive_quiescence"); continue; }
                    let d = affordable_depth(&b, 1 + rng.below(3) as u8, 40000);
                    if d == 0 { out.count("skipped_explosive_search"); continue; }
                    let lim = match rng.below(4) { 0 => format!("nodes:{}", 1 + rng.below(400)), 1 => format!("polls:{}", rng.below(300)), _ => "none".to_string() };
                    let op = format!("s.go {} {} {}", board_text(&b), d, lim);
                    let a = out.run(&mut st, &op);
                    out.nontrivial(&op);
                    if case <= 2 { out.sample(format!("{} => {}", op, a)); }
                    out.count(&format!("go_depth_{}", d));
                    if lim != "none" { out.count("go_interrupted"); }
                    // ordering is a permutation: same op on both sides under the searcher's current killer/history state
                    let ms = g.mg.generate_moves(&b);
                    let ttm = if !ms.is_empty() && rng.chance(1, 2) { Some(*rng.pick(&ms)) } else { None };
                    out.run(&mut st, &format!("s.order {} {} {}", board_text(&b), opt_mv_text(&ttm), rng.below(4)));
                }
            }
            // ------------------------------------------------------------------ C05 value = minimax
            "c05" => {
                let b = pick_search_position(&g, &mut st, rng, out, 400);
                // depth 4 (transpositions inside one search appear from there on) for one case in four; the reference
                // minimax is un-pruned, so the q-finite sub-tree budget below keeps those to small positions
                let d = if rng.chance(1, 4) { 4 } else { 1 + rng.below(3) as u8 };
                let mut budget = if d == 4 { 9000i64 } else { 4000i64 };
                if !subtree_q_ok(&g, &mut st, &b, d, 400, &mut budget) { out.count("rejected_subtree_not_qfinite_under_cap"); case -= 1; continue; }
                let (score, mv, deeper) = st.fresh_search(&b, d);
                let op = format!("s.value {} {} {}", board_text(&b), d, opt_mv_text(&mv));
                let a = out.run(&mut st, &op);
                out.nontrivial(&op);
                if case <= 3 { out.sample(format!("{} => {}", op, a)); }
                out.count(&format!("value_depth_{}", d));
                if deeper > 0 { out.count("value_cases_not_judged_deeper_record_reused"); }
                if score.abs() >= 32767 { out.count("value_is_forced_mate"); }
                if g.mg.generate_moves(&b).is_empty() { out.count("value_root_terminal"); }
                out.run(&mut st, &format!("s.qval {}", board_text(&b)));
            }
            // ------------------------------------------------------------------ C06 / C07 interruptions at every point
            "c06" | "c07" => {
                // one case in three runs on the ENGINE's own searcher with a game history recorded by a position command
                // (a bare searcher has an empty history: nothing that drops or adds history entries can show there)
                if which == "c06" && rng.chance(1, 3) {
                    let start = pick_search_position(&g, &mut st, rng, out, 300);
                    // a short game that shuffles back and forth, so that the history matters to the later search
                    let mut b = start;
                    let mut played: Vec<Move> = Vec::new();
                    for _ in 0..(2 + rng.below(7)) {
                        let ms = g.mg.generate_moves(&b);
                        if ms.is_empty() { break; }
                        let m = if played.len() >= 2 && rng.chance(3, 4) {
                            let prev = played[played.len() - 2];
                            match ms.iter().find(|x| x.from == prev.to && x.to == prev.from && x.piece_type == prev.piece_type && x.move_type == MoveType::Quiet) { Some(x) => *x, None => *rng.pick(&ms) }
                        } else {
                            let quiet: Vec<&Move> = ms.iter().filter(|x| x.move_type == MoveType::Quiet && x.piece_type != Piece::Pawn).collect();
                            if !quiet.is_empty() { **rng.pick(&quiet) } else { *rng.pick(&ms) }
                        };
                        played.push(m); b.make_move(&m);
                    }
                    let d = 1 + rng.below(3) as u8;
                    if played.is_empty() || g.mg.generate_moves(&b).is_empty() || nodes_capped(&b, d, 6000) >= 6000 { case -= 1; continue; }
                    let z = crate::zobrist::ZobristTable::new();
                    out.run(&mut st, &format!("eng.new {}", zobrist_keys_text(&z)));
                    let mut line = format!("position fen {}", fen_of(&start));
                    line += " moves"; for m in &played { line += " "; line += &uci_text(m); }
                    out.run(&mut st, &format!("eng.pos {} {} | {}", board_text(&start), played.iter().map(mv_text).collect::<Vec<_>>().join(" "), line));
                    let total = nodes_capped(&b, d, 6000).max(2);
                    for _ in 0..(1 + rng.below(3)) {
                        let before = out.run(&mut st, "eng.rep");
                        let lim = if rng.chance(1, 2) { format!("nodes:{}", 1 + rng.below(total)) } else { format!("polls:{}", rng.below(total)) };
                        out.run(&mut st, &format!("eng.golim {} {}", d, lim));
                        let after = out.run(&mut st, "eng.rep");
                        out.run(&mut st, &format!("eng.repsame {} {}", before, after));
                        out.count("engine_searches_with_history_cut_off");
                    }
                    // a later completed search with the history in place: tied to the model, judged when no deeper record was reused
                    let d0: u64 = out.run(&mut st, "eng.deeper").parse().unwrap_or(0);
                    let a = out.run(&mut st, &format!("eng.go {}", d));
                    let d1: u64 = out.run(&mut st, "eng.deeper").parse().unwrap_or(0);
                    let f: Vec<&str> = a.split_whitespace().collect();
                    if !f.is_empty() { out.run(&mut st, &format!("eng.judged {} {} {}", d, f[0], d1.saturating_sub(d0))); }
                    out.nontrivial(&line);
                    continue;
                }
                let b = pick_search_position(&g, &mut st, rng, out, 300);
                let d = 1 + rng.below(3) as u8;
                let mut budget = 3000i64;
                if !subtree_q_ok(&g, &mut st, &b, d, 300, &mut budget) { out.count("rejected_subtree_not_qfinite_under_cap"); case -= 1; continue; }
                let total = search_nodes(&mut st, &b, d);
                out.add("total_nodes_of_completed_search", total);
                // exhaustive deadlines for small trees, sampled otherwise; poll-indexed deadlines as well
                let points: Vec<u64> = if total <= 120 { (1..=total).collect() } else { (0..40).map(|_| 1 + rng.below(total)).collect() };
                for (i, pt) in points.iter().enumerate() {
                    fresh_keys(&mut st, out);
                    let n_int = 1 + rng.below(3);
                    let mut cum_deeper = 0u64;
                    for j in 0..n_int {
                        let lim = if (i + j as usize) % 2 == 0 { format!("nodes:{}", pt) } else { format!("polls:{}", pt) };
                        let a = out.run(&mut st, &format!("s.go {} {} {}", board_text(&b), d, lim));
                        cum_deeper += deeper_of(&a);
                        out.run(&mut st, "s.afterstop");
                        out.count("interrupted_searches");
                    }
                    if which == "c06" {
                        // a later completed search of the same position
                        let op = format!("s.go {} {} none", board_text(&b), d);
                        let a = out.run(&mut st, &op);
                        cum_deeper += deeper_of(&a);
                        let f: Vec<&str> = a.split_whitespace().collect();
                        // the reference value is unambiguous only when no record from a DEEPER search was reused anywhere
                        // in this searcher's life (instrumented, as in C05); otherwise the case is counted, not judged
                        if cum_deeper == 0 && f.len() >= 2 {
                            let j = format!("s.judge {} value {} {} {}", board_text(&b), d, f[0], f[1]);
                            let ja = out.run(&mut st, &j);
                            if i < 2 { out.sample(format!("{} => {} ; {} => {}", op, a, j, ja)); }
                            out.count("later_search_judged_against_minimax");
                            // every record left behind for the root and its successors must be a true claim
                            out.run(&mut st, &format!("s.ttclaim {}", board_text(&b)));
                            for m in g.mg.generate_moves(&b) { out.run(&mut st, &format!("s.ttclaim {}", board_text(&b.clone_with_move(&m)))); out.count("tt_claims_audited"); }
                        } else { out.count("later_search_not_judged_deeper_record_reused"); }
                        // the game-history record is exactly as before (empty for a bare searcher): rep= field of the answers
                    }
                    out.nontrivial(&format!("{}@{}", board_text(&b), pt));
                }
            }
            // ------------------------------------------------------------------ C15 at the level of the search: deepest wins
            // several searches on ONE searcher, deeper first and shallower later, on the same position and on its successors:
            // the record kept for each of these positions must never become shallower (depths observed before and after
            // every search, judged by the spec column), and the table digest ties the model to the code.
            "c15s" => {
                let b = pick_search_position(&g, &mut st, rng, out, 300);
                let ms = g.mg.generate_moves(&b);
                let mut watch: Vec<Board> = vec![b];
                for m in ms.iter().take(6) { watch.push(b.clone_with_move(m)); }
                let mut plan: Vec<(Board, u8)> = Vec::new();
                let dmax = 2 + rng.below(2) as u8;
                plan.push((b, dmax));
                for _ in 0..(2 + rng.below(3)) {
                    let p = *rng.pick(&watch);
                    plan.push((p, 1 + rng.below(dmax as u64) as u8));
                }
                plan.push((b, 1));
                for (p, d) in plan {
                    if qsize(&mut st, &p, 3000).is_none() { out.count("skipped_explosive_quiescence"); continue; }
                    let d = affordable_depth(&p, d, 30000);
                    if d == 0 { out.count("skipped_explosive_search"); continue; }
                    let before: Vec<String> = watch.iter().map(|w| out.run(&mut st, &format!("s.ttdepth {}", board_text(w)))).collect();
                    let lim = if rng.chance(1, 5) { format!("nodes:{}", 1 + rng.below(300)) } else { "none".to_string() };
                    let op = format!("s.go {} {} {}", board_text(&p), d, lim);
                    let a = out.run(&mut st, &op);
                    out.count(&format!("c15s_go_depth_{}", d));
                    for (w, bf) in watch.iter().zip(before.iter()) {
                        let af = out.run(&mut st, &format!("s.ttdepth {}", board_text(w)));
                        let j = format!("s.judge {} depthmono {} {}", board_text(w), bf, af);
                        let ja = out.run(&mut st, &j);
                        if bf != "none" { out.count("records_watched_across_a_search"); if bf.parse::<u32>().ok() > Some(d as u32) { out.count("deeper_record_present_before_shallower_search"); } }
                        if case <= 2 && bf != "none" && board_text(w) == board_text(&b) { out.sample(format!("{} ; {} => {}", op.chars().take(90).collect::<String>(), j.chars().rev().take(30).collect::<String>().chars().rev().collect::<String>(), ja)); }
                    }
                    out.nontrivial(&op);
                    let _ = a;
                }
            }
            _ => panic!("unknown search generator"),
        }
    }
}

fn deeper_of(answer: &str) -> u64 {
    answer.split_whitespace().find_map(|t| t.strip_prefix("deeper=")).and_then(|x| x.parse().ok()).unwrap_or(1)
}
