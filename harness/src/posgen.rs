// Position generators (DESIGN.md 4.2): play-outs from a FEN corpus, constructed positions, malformed boards.
use crate::board::Board;
use crate::common::{Out, Rng};
use crate::move_gen::MoveGenerator;
use crate::moves::{Move, MoveType};
use crate::pieces::{Color, Piece};
use crate::refchess;
use crate::text::*;

pub const CORPUS: &[&str] = &[
    "rnbqkbnr/pppppppp/8/8/8/8/PPPPPPPP/RNBQKBNR w KQkq - 0 1",
    "r3k2r/p1ppqpb1/bn2pnp1/3PN3/1p2P3/2N2Q1p/PPPBBPPP/R3K2R w KQkq - 0 1",
    "8/2p5/3p4/KP5r/1R3p1k/8/4P1P1/8 w - - 0 1",
    "r3k2r/Pppp1ppp/1b3nbN/nP6/BBP1P3/q4N2/Pp1P2PP/R2Q1RK1 w kq - 0 1",
    "rnbq1k1r/pp1Pbppp/2p5/8/2B5/8/PPP1NnPP/RNBQK2R w KQ - 1 8",
    "r4rk1/1pp1qppp/p1np1n2/2b1p1B1/2B1P1b1/P1NP1N2/1PP1QPPP/R4RK1 w - - 0 10",
    // castling through / out of / into check, rook attacked (legal), b1 attacked (legal)
    "r3k2r/8/8/8/4r3/8/8/R3K2R w KQkq - 0 1",
    "r3k2r/8/8/8/5r2/8/8/R3K2R w KQkq - 0 1",
    "r3k2r/8/8/8/8/6n1/8/R3K2R w KQkq - 0 1",
    "r3k2r/8/8/8/8/8/1r6/R3K2R w KQkq - 0 1",
    "r3k2r/8/8/2B5/8/8/8/R3K2R b KQkq - 0 1",
    // en passant: pinned on rank 5 (illegal), captures the checker, exposes a diagonal, ordinary
    "8/8/8/KPp4r/8/8/8/7k w - c6 0 2",
    "8/8/8/8/k2Pp2Q/8/8/3K4 b - d3 0 1",
    "8/8/8/2k5/3Pp3/8/8/4K3 b - d3 0 1",
    "4k3/8/8/8/1pP5/8/8/B3K3 b - c3 0 1",
    "4k3/b7/8/2pP4/8/8/8/6K1 w - c6 0 1",
    "rnbqkbnr/ppp1p1pp/8/3pPp2/8/8/PPPP1PPP/RNBQKBNR w KQkq f6 0 3",
    // double check, discovered checks, pins of every direction
    "4k3/8/8/8/8/5n2/4r3/4K3 w - - 0 1",
    "4k3/4r3/8/8/b7/8/2N1B3/4K3 w - - 0 1",
    "k7/8/8/q7/8/2B5/8/4K2R w K - 0 1",
    // promotions incl. capturing a corner rook with rights set, underpromotion checks
    "r3k2r/1P4P1/8/8/8/8/1p4p1/R3K2R w KQkq - 0 1",
    "r3k2r/1P4P1/8/8/8/8/1p4p1/R3K2R b KQkq - 0 1",
    "8/5P1k/8/8/8/8/8/K7 w - - 0 1",
    // mate, stalemate, many queens
    "7k/5Q2/6K1/8/8/8/8/8 b - - 0 1",
    "7k/6Q1/6K1/8/8/8/8/8 b - - 0 1",
    "QQQQ4/QQQQ4/8/7k/8/8/8/K7 w - - 0 1",
    "8/PPPPPPPP/8/2k5/8/2K5/pppppppp/8 w - - 0 1",
];

pub struct Gen {
    pub mg: MoveGenerator,
}

impl Gen {
    pub fn new() -> Self { Gen { mg: MoveGenerator::new() } }

    /// random legal play-out (by the engine's own generator) from a corpus position
    pub fn playout(&self, rng: &mut Rng, max_plies: usize) -> Board {
        let fen: &str = *rng.pick(CORPUS);
        let mut b = Board::new(fen);
        let plies = rng.below(max_plies as u64 + 1) as usize;
        for _ in 0..plies {
            let moves = self.mg.generate_moves(&b);
            if moves.is_empty() { break; }
            // bias towards the rare move kinds so that they actually occur
            let special: Vec<&Move> = moves.iter().filter(|m| m.move_type != MoveType::Quiet).collect();
            let mv = if !special.is_empty() && rng.chance(2, 5) { **rng.pick(&special) } else { *rng.pick(&moves) };
            b.make_move(&mv);
        }
        b
    }

    /// constructed position: kings + k random men, random rights/ep among those `valid` allows; None if invalid
    pub fn constructed(&self, rng: &mut Rng) -> Option<Board> {
        let mut occ = [None::<(Color, Piece)>; 64];
        let wk = rng.below(64) as usize;
        let mut bk = rng.below(64) as usize;
        while bk == wk { bk = rng.below(64) as usize; }
        if rng.chance(1, 3) { occ[4] = Some((Color::White, Piece::King)); } else { occ[wk] = Some((Color::White, Piece::King)); }
        let wk = if occ[4] == Some((Color::White, Piece::King)) { 4 } else { wk };
        let bk = if rng.chance(1, 3) && wk != 60 { 60 } else if bk == wk { (wk + 17) % 64 } else { bk };
        occ[bk] = Some((Color::Black, Piece::King));
        let k = rng.below(14) as usize + rng.below(8) as usize;
        let weights = [Piece::Pawn, Piece::Pawn, Piece::Pawn, Piece::Knight, Piece::Bishop, Piece::Rook, Piece::Rook, Piece::Queen];
        for _ in 0..k {
            let s = rng.below(64) as usize;
            if occ[s].is_some() { continue; }
            let p = *rng.pick(&weights);
            if p == Piece::Pawn && (s < 8 || s >= 56) { continue; }
            let c = if rng.chance(1, 2) { Color::White } else { Color::Black };
            occ[s] = Some((c, p));
        }
        // rooks on corners to make castling rights possible
        if wk == 4 && rng.chance(1, 2) { for s in [0usize, 7] { if occ[s].is_none() { occ[s] = Some((Color::White, Piece::Rook)); } } }
        if bk == 60 && rng.chance(1, 2) { for s in [56usize, 63] { if occ[s].is_none() { occ[s] = Some((Color::Black, Piece::Rook)); } } }
        let mut pcs = [0u64; 6];
        let (mut white, mut black) = (0u64, 0u64);
        for s in 0..64 {
            if let Some((c, p)) = occ[s] {
                pcs[p.index()] |= 1 << s;
                if c == Color::White { white |= 1 << s } else { black |= 1 << s }
            }
        }
        let side = if rng.chance(1, 2) { Color::White } else { Color::Black };
        let mut mask = 0u8;
        if wk == 4 && occ[7] == Some((Color::White, Piece::Rook)) && rng.chance(2, 3) { mask |= 1; }
        if wk == 4 && occ[0] == Some((Color::White, Piece::Rook)) && rng.chance(2, 3) { mask |= 2; }
        if bk == 60 && occ[63] == Some((Color::Black, Piece::Rook)) && rng.chance(2, 3) { mask |= 4; }
        if bk == 60 && occ[56] == Some((Color::Black, Piece::Rook)) && rng.chance(2, 3) { mask |= 8; }
        // ep: pick a candidate enemy pawn that could just have double-pushed
        let mut ep = None;
        let mut cands = vec![];
        for f in 0..8usize {
            if side == Color::White {
                if occ[32 + f] == Some((Color::Black, Piece::Pawn)) && occ[40 + f].is_none() && occ[48 + f].is_none() { cands.push((40 + f) as u8); }
            } else if occ[24 + f] == Some((Color::White, Piece::Pawn)) && occ[16 + f].is_none() && occ[8 + f].is_none() { cands.push((16 + f) as u8); }
        }
        if !cands.is_empty() && rng.chance(2, 3) { ep = Some(*rng.pick(&cands)); }
        let b = board_from_raw(pcs, white, black, side, mask, ep, rng.below(100) as u32, 1 + rng.below(200) as u32)?;
        if refchess::valid(&b) { Some(b) } else { None }
    }

    /// pins: own king, own man X and an enemy slider on one line (nothing between), X possibly a pawn one step from
    /// promotion with the pinner on the promotion rank, X possibly able to capture the pinner or to move along the line;
    /// plus a few random men.  Exercises the pinned-piece branch of the legality filter far more often than random play.
    pub fn pin_family(&self, rng: &mut Rng) -> Option<Board> {
        let dirs: [(i32, i32); 8] = [(1, 0), (-1, 0), (0, 1), (0, -1), (1, 1), (1, -1), (-1, 1), (-1, -1)];
        let side = if rng.chance(1, 2) { Color::White } else { Color::Black };
        let opp = if side == Color::White { Color::Black } else { Color::White };
        let mut occ = [None::<(Color, Piece)>; 64];
        let (dr, df) = *rng.pick(&dirs);
        let diagonal = dr != 0 && df != 0;
        let kr = rng.below(8) as i32; let kf = rng.below(8) as i32;
        let i = 1 + rng.below(3) as i32;
        let j = i + 1 + rng.below(3) as i32;
        let on = |r: i32, f: i32| r >= 0 && r < 8 && f >= 0 && f < 8;
        let (xr, xf) = (kr + i * dr, kf + i * df);
        let (pr, pf) = (kr + j * dr, kf + j * df);
        if !on(xr, xf) || !on(pr, pf) { return None; }
        occ[(kr * 8 + kf) as usize] = Some((side, Piece::King));
        let pinner = if rng.chance(1, 3) { Piece::Queen } else if diagonal { Piece::Bishop } else { Piece::Rook };
        occ[(pr * 8 + pf) as usize] = Some((opp, pinner));
        // the pinned man: often a pawn (on its 7th rank when that fits), else any piece
        let seventh = if side == Color::White { 6 } else { 1 };
        let x = if xr == seventh && rng.chance(3, 4) { Piece::Pawn } else { *rng.pick(&[Piece::Pawn, Piece::Knight, Piece::Bishop, Piece::Rook, Piece::Queen]) };
        if x == Piece::Pawn && (xr == 0 || xr == 7) { return None; }
        occ[(xr * 8 + xf) as usize] = Some((side, x));
        // enemy king somewhere not adjacent to mine
        let mut tries = 0;
        loop {
            let s = rng.below(64) as usize;
            let (r, f) = ((s / 8) as i32, (s % 8) as i32);
            if occ[s].is_none() && (r - kr).abs().max((f - kf).abs()) >= 2 {
                // keep it off the pin line between king and pinner
                occ[s] = Some((opp, Piece::King));
                break;
            }
            tries += 1;
            if tries > 200 { return None; }
        }
        for _ in 0..rng.below(7) {
            let s = rng.below(64) as usize;
            // do not block the pin line
            let (r, f) = ((s / 8) as i32, (s % 8) as i32);
            let mut on_line = false;
            for t in 1..j { if r == kr + t * dr && f == kf + t * df { on_line = true; } }
            if on_line || occ[s].is_some() { continue; }
            let p = *rng.pick(&[Piece::Pawn, Piece::Pawn, Piece::Pawn, Piece::Knight, Piece::Bishop, Piece::Rook, Piece::Queen]);
            if p == Piece::Pawn && (r == 0 || r == 7) { continue; }
            occ[s] = Some((if rng.chance(1, 2) { side } else { opp }, p));
        }
        let mut pcs = [0u64; 6];
        let (mut white, mut black) = (0u64, 0u64);
        for s in 0..64 { if let Some((c, p)) = occ[s] { pcs[p.index()] |= 1 << s; if c == Color::White { white |= 1 << s } else { black |= 1 << s } } }
        // an en-passant square now and then (ep captures by or next to pinned pawns)
        let mut ep = None;
        let mut cands = vec![];
        for f in 0..8usize {
            if side == Color::White {
                if occ[32 + f] == Some((Color::Black, Piece::Pawn)) && occ[40 + f].is_none() && occ[48 + f].is_none() { cands.push((40 + f) as u8); }
            } else if occ[24 + f] == Some((Color::White, Piece::Pawn)) && occ[16 + f].is_none() && occ[8 + f].is_none() { cands.push((16 + f) as u8); }
        }
        if !cands.is_empty() && rng.chance(1, 2) { ep = Some(*rng.pick(&cands)); }
        let b = board_from_raw(pcs, white, black, side, 0, ep, rng.below(100) as u32, 1 + rng.below(200) as u32)?;
        if refchess::valid(&b) { Some(b) } else { None }
    }

    /// en passant: my pawn on its 5th rank next to an enemy pawn that has just advanced two squares (every file, the edge
    /// files included), the capture sometimes illegal because of the classic pin along the rank or a diagonal
    pub fn ep_family(&self, rng: &mut Rng) -> Option<Board> {
        let side = if rng.chance(1, 2) { Color::White } else { Color::Black };
        let opp = if side == Color::White { Color::Black } else { Color::White };
        let mut occ = [None::<(Color, Piece)>; 64];
        let r5 = if side == Color::White { 4usize } else { 3 };
        let ef = *rng.pick(&[0usize, 7, 0, 7, 1, 2, 3, 4, 5, 6]);           // file of the pawn that has just double-pushed
        let mf = if ef == 0 { 1 } else if ef == 7 { 6 } else if rng.chance(1, 2) { ef - 1 } else { ef + 1 };
        occ[r5 * 8 + ef] = Some((opp, Piece::Pawn));
        occ[r5 * 8 + mf] = Some((side, Piece::Pawn));
        if rng.chance(1, 4) { let of = if mf > ef { ef.wrapping_sub(1) } else { ef + 1 }; if of < 8 && occ[r5 * 8 + of].is_none() { occ[r5 * 8 + of] = Some((side, Piece::Pawn)); } }
        let ep = (if side == Color::White { 5 * 8 + ef } else { 2 * 8 + ef }) as u8;
        // kings: mine often on the 5th rank (rank pin), or on a line through my pawn with an enemy slider on the other side of
        // the pawn (file pin, either diagonal — one of the diagonals passes through the en-passant square, so the capture stays
        // on the pin line and is LEGAL), or anywhere
        let mut line: Vec<usize> = vec![];
        let mk = if rng.chance(2, 5) {
            let dirs: [(i32, i32); 8] = [(1, 0), (-1, 0), (0, 1), (0, -1), (1, 1), (1, -1), (-1, 1), (-1, -1)];
            let fwd: i32 = if side == Color::White { 1 } else { -1 };
            // prefer the diagonal through the en-passant square
            let (dr, df) = if rng.chance(1, 2) { (fwd, ef as i32 - mf as i32) } else { *rng.pick(&dirs) };
            let (pr, pf) = (r5 as i32, mf as i32);
            let i = 1 + rng.below(3) as i32;
            let j = 1 + rng.below(4) as i32;
            let on = |r: i32, f: i32| r >= 0 && r < 8 && f >= 0 && f < 8;
            let (kr, kf) = (pr - i * dr, pf - i * df);
            let (sr, sf) = (pr + j * dr, pf + j * df);
            if !on(kr, kf) || !on(sr, sf) { return None; }
            for t in 1..i { line.push(((pr - t * dr) * 8 + pf - t * df) as usize); }
            for t in 1..j { line.push(((pr + t * dr) * 8 + pf + t * df) as usize); }
            if line.iter().any(|&q| occ[q].is_some()) { return None; }
            let ss = (sr * 8 + sf) as usize;
            if occ[ss].is_some() { return None; }
            let slider = if rng.chance(1, 3) { Piece::Queen } else if dr != 0 && df != 0 { Piece::Bishop } else { Piece::Rook };
            occ[ss] = Some((opp, slider));
            (kr * 8 + kf) as usize
        } else if rng.chance(1, 2) { r5 * 8 + rng.below(8) as usize } else { rng.below(64) as usize };
        if occ[mk].is_some() { return None; }
        occ[mk] = Some((side, Piece::King));
        let mut ok = rng.below(64) as usize;
        let mut tries = 0;
        while occ[ok].is_some() || ((ok / 8) as i32 - (mk / 8) as i32).abs().max(((ok % 8) as i32 - (mk % 8) as i32).abs()) < 2 { ok = rng.below(64) as usize; tries += 1; if tries > 100 { return None; } }
        occ[ok] = Some((opp, Piece::King));
        if rng.chance(1, 2) { let s = r5 * 8 + rng.below(8) as usize; if occ[s].is_none() { occ[s] = Some((opp, *rng.pick(&[Piece::Rook, Piece::Queen]))); } }
        for _ in 0..rng.below(6) {
            let s = rng.below(64) as usize;
            if occ[s].is_some() { continue; }
            let p = *rng.pick(&[Piece::Pawn, Piece::Pawn, Piece::Knight, Piece::Bishop, Piece::Rook, Piece::Queen]);
            if p == Piece::Pawn && (s / 8 == 0 || s / 8 == 7) { continue; }
            // keep the squares behind the double-pushed pawn empty (it has just passed them)
            if s as u8 == ep || s == (if side == Color::White { 6 * 8 + ef } else { 8 + ef }) { continue; }
            if line.contains(&s) { continue; }
            occ[s] = Some((if rng.chance(1, 2) { side } else { opp }, p));
        }
        let mut pcs = [0u64; 6];
        let (mut white, mut black) = (0u64, 0u64);
        for s in 0..64 { if let Some((c, p)) = occ[s] { pcs[p.index()] |= 1 << s; if c == Color::White { white |= 1 << s } else { black |= 1 << s } } }
        let b = board_from_raw(pcs, white, black, side, 0, Some(ep), rng.below(100) as u32, 1 + rng.below(200) as u32)?;
        if refchess::valid(&b) { Some(b) } else { None }
    }

    /// a valid position from the mixed stream
    pub fn valid_position(&self, rng: &mut Rng, out: &mut Out) -> Board {
        loop {
            if rng.chance(1, 10) {
                if let Some(b) = self.ep_family(rng) { out.count("pos_ep_family"); return b; }
                continue;
            }
            if rng.chance(1, 6) {
                if let Some(b) = self.pin_family(rng) { out.count("pos_pin_family"); return b; }
                continue;
            }
            if rng.chance(1, 2) {
                let b = self.playout(rng, 60);
                out.count("pos_playout");
                return b;
            }
            if let Some(b) = self.constructed(rng) { out.count("pos_constructed"); return b; }
            out.count("pos_constructed_rejected");
        }
    }

    /// malformed stream: arbitrary bitboards (overlaps, missing kings, bits in a colour but no piece are excluded
    /// because the public API cannot build them)
    pub fn malformed(&self, rng: &mut Rng) -> Board {
        loop {
            let mut pcs = [0u64; 6];
            let (mut white, mut black) = (0u64, 0u64);
            let dens = 1 + rng.below(6);
            for s in 0..64 {
                if rng.below(8) < dens {
                    let np = if rng.chance(1, 6) { 2 } else { 1 };
                    for _ in 0..np { pcs[rng.below(6) as usize] |= 1 << s; }
                    match rng.below(8) { 0 => { white |= 1 << s; black |= 1 << s; } 1..=4 => white |= 1 << s, _ => black |= 1 << s }
                }
            }
            let side = if rng.chance(1, 2) { Color::White } else { Color::Black };
            let ep = if rng.chance(1, 3) { Some(rng.below(64) as u8) } else { None };
            if let Some(b) = board_from_raw(pcs, white, black, side, rng.below(16) as u8, ep, rng.below(256) as u32, rng.below(256) as u32) { return b; }
        }
    }
}

pub fn describe(b: &Board, out: &mut Out) {
    let m = refchess::men(b);
    out.count(&format!("men_{:02}", (m / 4) * 4));
    if refchess::in_check(b) { out.count("in_check"); }
    if b.en_passant_target.is_some() { out.count("with_ep_square"); }
    let (a, c) = b.castling_ability(Color::White);
    let (d, e) = b.castling_ability(Color::Black);
    if a || c || d || e { out.count("with_castling_rights"); }
}
