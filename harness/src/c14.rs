// C14: evaluation on valid and malformed boards, in random call orders on ONE evaluator; flip/mirror relations.
use crate::common::{Out, Rng};
use crate::ops::ImplState;
use crate::posgen::{self, Gen};
use crate::text::*;

pub fn run(rng: &mut Rng, n: usize, out: &mut Out) {
    let mut st = ImplState::new();
    let g = Gen::new();
    let mut pool: Vec<String> = Vec::new();
    for i in 0..n {
        let (b, valid) = if rng.chance(1, 12) { match promoted_army(rng) { Some(b) => { out.count("promoted_army_positions"); (b, true) } None => (g.valid_position(rng, out), true) } }
                         else if rng.chance(1, 5) { (g.malformed(rng), false) } else { (g.valid_position(rng, out), true) };
        if valid { posgen::describe(&b, out); out.count("valid"); } else { out.count("malformed"); }
        let bt = board_text(&b);
        // re-evaluate an earlier board now and then: same answer regardless of what came in between
        if !pool.is_empty() && rng.chance(1, 4) {
            let old = rng.pick(&pool).clone();
            let op = format!("eval {}", old);
            let a = out.run(&mut st, &op);
            out.count("re_evaluations");
        }
        let op = if valid || rng.chance(1, 2) { format!("eval.rel {}", bt) } else { format!("eval {}", bt) };
        let a = st.apply(&op);
        if a != "0" && a != "0 0 0" { out.nontrivial(&bt); }
        if i < 3 { out.sample(format!("{} => {}", op, a)); }
        out.op(&op, &a);
        // magnitude: with at most 16 men a side the score must stay strictly inside the search window (judged by the spec
        // column against the window constant re-extracted from search.rs)
        if valid {
            let first = a.split_whitespace().next().unwrap_or("0").to_string();
            out.run(&mut st, &format!("eval.judge {} {}", bt, first));
        }
        if pool.len() < 64 { pool.push(bt); } else { let k = rng.below(64) as usize; pool[k] = bt; }
    }
}

/// one side has promoted everything: king + up to 15 heavy pieces against a nearly bare king (the largest scores reachable
/// with 16 men a side); the weak side is to move so that the position is valid even when its king is attacked
fn promoted_army(rng: &mut Rng) -> Option<crate::board::Board> {
    use crate::pieces::{Color, Piece};
    let strong = if rng.chance(1, 2) { Color::White } else { Color::Black };
    let weak = if strong == Color::White { Color::Black } else { Color::White };
    let mut occ = [None::<(Color, Piece)>; 64];
    let sk = rng.below(64) as usize;
    occ[sk] = Some((strong, Piece::King));
    let mut wk = rng.below(64) as usize;
    let mut tries = 0;
    while wk == sk || ((wk / 8) as i32 - (sk / 8) as i32).abs().max(((wk % 8) as i32 - (sk % 8) as i32).abs()) < 2 { wk = rng.below(64) as usize; tries += 1; if tries > 100 { return None; } }
    occ[wk] = Some((weak, Piece::King));
    let n = 9 + rng.below(7) as usize;
    for _ in 0..n {
        let sq = rng.below(64) as usize;
        if occ[sq].is_none() { occ[sq] = Some((strong, *rng.pick(&[Piece::Queen, Piece::Queen, Piece::Queen, Piece::Rook, Piece::Knight, Piece::Bishop]))); }
    }
    for _ in 0..rng.below(3) {
        let sq = 8 + rng.below(48) as usize;
        if occ[sq].is_none() { occ[sq] = Some((weak, Piece::Pawn)); }
    }
    let mut pcs = [0u64; 6];
    let (mut wbb, mut bbb) = (0u64, 0u64);
    for sq in 0..64 { if let Some((c, p)) = occ[sq] { pcs[p.index()] |= 1 << sq; if c == Color::White { wbb |= 1 << sq } else { bbb |= 1 << sq } } }
    let b = board_from_raw(pcs, wbb, bbb, weak, 0, None, 0, 1)?;
    if crate::refchess::valid(&b) { Some(b) } else { None }
}
