// C14: evaluation on valid and malformed boards, in random call orders on ONE evaluator; flip/mirror relations.
use crate::common::{Out, Rng};
use crate::ops::ImplState;
use crate::posgen::{self, Gen};
use crate::text::*;

pub fn run(rng: &mut Rng, n: usize, out: &mut Out) {
    let mut st = ImplState::new();
    let g = Gen::new();
    let mut pool: Vec<String> = Vec::new();
    for i in 0..n {
        let (b, valid) = if rng.chance(1, 5) { (g.malformed(rng), false) } else { (g.valid_position(rng, out), true) };
        if valid { posgen::describe(&b, out); out.count("valid"); } else { out.count("malformed"); }
        let bt = board_text(&b);
        // re-evaluate an earlier board now and then: same answer regardless of what came in between
        if !pool.is_empty() && rng.chance(1, 4) {
            let old = rng.pick(&pool).clone();
            let op = format!("eval {}", old);
            let a = out.run(&mut st, &op);
            out.count("re_evaluations");
        }
        let op = if valid || rng.chance(1, 2) { format!("eval.rel {}", bt) } else { format!("eval {}", bt) };
        let a = st.apply(&op);
        if a != "0" && a != "0 0 0" { out.nontrivial(&bt); }
        if i < 3 { out.sample(format!("{} => {}", op, a)); }
        out.op(&op, &a);
        if pool.len() < 64 { pool.push(bt); } else { let k = rng.below(64) as usize; pool[k] = bt; }
    }
}
