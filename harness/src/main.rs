// Correspondence harness: pulls the engine's modules in *by path* from /repo/src (the working tree,
// whatever it says now), drives the real code in-process and writes one operation per line
// (ops.txt) plus the implementation's canonicalised answer per operation (impl.txt).
#![allow(dead_code, unused_imports, unused_variables)]

#[path = "/repo/src/bitboard.rs"] mod bitboard;
#[path = "/repo/src/board.rs"] mod board;
#[path = "/repo/src/eval.rs"] mod eval;
#[path = "/repo/src/fen.rs"] mod fen;
#[path = "/repo/src/history.rs"] mod history;
#[path = "/repo/src/killer_moves.rs"] mod killer_moves;
#[path = "/repo/src/lookup.rs"] mod lookup;
#[path = "/repo/src/magic.rs"] mod magic;
#[path = "/repo/src/move_gen.rs"] mod move_gen;
#[path = "/repo/src/moves.rs"] mod moves;
#[path = "/repo/src/pieces.rs"] mod pieces;
#[path = "/repo/src/repetition.rs"] mod repetition;
#[path = "/repo/src/search.rs"] mod search;
#[path = "/repo/src/square.rs"] mod square;
#[path = "/repo/src/timer.rs"] mod timer;
#[path = "/repo/src/transposition.rs"] mod transposition;
#[path = "/repo/src/uci.rs"] mod uci;
#[path = "/repo/src/util.rs"] mod util;
#[path = "/repo/src/zobrist.rs"] mod zobrist;

mod common;
mod text;
mod ops;
mod replay;
mod refchess;
mod posgen;
mod c01;
mod c02;
mod csearch;
mod cgame;
mod scripts;
mod c10;
mod c11;
mod c12;
mod c14;
mod c15;

fn main() {
    let args: Vec<String> = std::env::args().collect();
    if args.len() >= 2 && args[1] == "replay" {
        replay::run();
        return;
    }
    if args.len() < 5 {
        eprintln!("usage: harness <prop> <seed> <n> <outdir> [extra..]");
        std::process::exit(2);
    }
    let prop = args[1].as_str();
    let seed: u64 = args[2].parse().expect("seed");
    let n: usize = args[3].parse().expect("n");
    let outdir = std::path::PathBuf::from(&args[4]);
    std::fs::create_dir_all(&outdir).unwrap();
    if prop.starts_with("scripts") {
        let mut rng = common::Rng::new(seed);
        let flavour = prop.strip_prefix("scripts-").unwrap_or("mixed");
        scripts::run(&mut rng, n, &outdir, flavour);
        return;
    }
    // panics of the engine under test are caught per operation; keep the default hook quiet
    std::panic::set_hook(Box::new(|_| {}));
    let mut out = common::Out::new(&outdir);
    let mut rng = common::Rng::new(seed);
    match prop {
        "c15" => c15::run(&mut rng, n, &mut out),
        "c15big" => c15::run_big(&mut rng, n, &mut out),
        "c01" => c01::run(&mut rng, n, &mut out, "c01"),
        "c17" => c01::run(&mut rng, n, &mut out, "c17"),
        "c02" => c02::run(&mut rng, n, &mut out),
        "tie" | "c05" | "c06" | "c07" | "c15s" => csearch::run(&mut rng, n, &mut out, prop),
        "c08" | "c03" | "c04" | "c09" => cgame::run(&mut rng, n, &mut out, prop),
        "c10" => c10::run(&mut rng, n, &mut out, false),
        "c10x" => c10::run(&mut rng, n, &mut out, true),
        "c11" => c11::run(&mut rng, n, &mut out),
        "c12" => c12::run(&mut rng, n, &mut out),
        "c14" => c14::run(&mut rng, n, &mut out),
        "dbg" => {
            let g = posgen::Gen::new();
            for fen in posgen::CORPUS {
                let b = board::Board::new(fen);
                println!("{} valid={} moves={}", fen, refchess::valid(&b), g.mg.generate_moves(&b).len());
            }
        }
        _ => {
            eprintln!("unknown property {prop}");
            std::process::exit(2);
        }
    }
    out.finish();
}
