// C12: go parameter parsing / time allocation through the REAL parser (hook verif_go_budget).
use crate::common::{Out, Rng};
use crate::ops::ImplState;

fn value(rng: &mut Rng) -> String {
    // GUIs send negative clocks when a flag has fallen: no time remains, the budget must be 0
    if rng.chance(1, 25) { return format!("-{}", 1 + rng.below(5000)); }
    match rng.below(12) {
        0 => "0".into(), 1 => "1".into(), 2 => "4999".into(), 3 => "5000".into(), 4 => "5001".into(), 5 => "5025".into(),
        6 => (rng.below(100_000_000)).to_string(), 7 => (rng.below(1u64 << 40)).to_string(),
        8 => format!("{}", rng.below(20_000)), 9 => format!("{}", 36_000_000 + rng.below(1000)),
        10 => format!("{}", rng.below(300)), _ => (rng.below(600_000)).to_string(),
    }
}

pub fn run(rng: &mut Rng, n: usize, out: &mut Out) {
    let mut st = ImplState::new();
    for i in 0..n {
        let side = if rng.chance(1, 2) { "w" } else { "b" };
        let mut pairs: Vec<(String, String)> = Vec::new();
        for k in ["wtime", "btime", "winc", "binc"] { if rng.chance(9, 10) { pairs.push((k.to_string(), value(rng))); } }
        // random order (Fisher-Yates)
        for j in (1..pairs.len()).rev() { let k = rng.below(j as u64 + 1) as usize; pairs.swap(j, k); }
        let well_formed = rng.chance(3, 4);
        let mut toks: Vec<String> = vec!["go".into()];
        // a depth cap or a moves-to-go hint next to the clocks (before or after them) must not change the budget
        let extra: Option<(String, String)> = if well_formed && rng.chance(1, 3) { Some((rng.pick(&["depth", "movestogo", "depth"]).to_string(), (1 + rng.below(60)).to_string())) } else { None };
        let extra_first = rng.chance(1, 2);
        if well_formed {
            if let (Some((k, v)), true) = (&extra, extra_first) { toks.push(k.clone()); toks.push(v.clone()); }
            for (k, v) in &pairs { toks.push(k.clone()); toks.push(v.clone()); }
            if let (Some((k, v)), false) = (&extra, extra_first) { toks.push(k.clone()); toks.push(v.clone()); }
            if extra.is_some() { out.count("well_formed_clock_with_depth_or_movestogo"); }
            out.count("well_formed_clock");
        } else {
            // interleave other tokens, junk, missing values, depth/movetime/infinite, bad numbers
            if rng.chance(1, 3) { toks.push("depth".into()); toks.push(match rng.below(5) { 0 => "0".into(), 1 => "300".into(), 2 => "x".into(), _ => rng.below(80).to_string() }); }
            if rng.chance(1, 4) { toks.push("movetime".into()); toks.push(match rng.below(4) { 0 => "0".into(), 1 => "-5".into(), _ => rng.below(10000).to_string() }); }
            for (k, v) in &pairs {
                if rng.chance(1, 8) { toks.push(rng.pick(&["junk", "ponder", "movestogo", "40", "searchmoves", "infinite", "depth", "movetime"]).to_string()); }
                toks.push(k.clone());
                if rng.chance(9, 10) { toks.push(if rng.chance(1, 10) { rng.pick(&["abc", "-1", "+7", "", "1.5", "99999999999999999999999"]).to_string() } else { v.clone() }); }
            }
            if rng.chance(1, 4) { toks.push(rng.pick(&["infinite", "depth", "movetime", "wtime", "7"]).to_string()); }
            if rng.chance(1, 6) { toks.push(rng.below(90).to_string()); }
            out.count("irregular");
        }
        let toks: Vec<String> = toks.into_iter().filter(|t| !t.is_empty()).collect();
        let op = format!("go.params {} {}", side, toks.join(" "));
        let a = out.run(&mut st, &op);
        out.nontrivial(&op);
        if i < 3 { out.sample(format!("{} => {}", op, a)); }
        if well_formed {
            // the same command with the OPPONENT's values replaced must give the same budget, and both must fit
            let opp_t = if side == "w" { "btime" } else { "wtime" };
            let opp_i = if side == "w" { "binc" } else { "winc" };
            let toks2: Vec<String> = {
                let mut v = vec!["go".to_string()];
                if let (Some((k, x)), true) = (&extra, extra_first) { v.push(k.clone()); v.push(x.clone()); }
                for (k, val) in &pairs { v.push(k.clone()); v.push(if k == opp_t || k == opp_i { value(rng) } else { val.clone() }); }
                if let (Some((k, x)), false) = (&extra, extra_first) { v.push(k.clone()); v.push(x.clone()); }
                v
            };
            let op2 = format!("go.pair {} {} | {}", side, toks.join(" "), toks2.join(" "));
            let a2 = out.run(&mut st, &op2);
            if i < 6 { out.sample(format!("{} => {}", op2, a2)); }
            out.count("opponent_clock_variants");
        }
    }
}
