// canonical text forms shared by all generators (must match lean/Driver/Text.lean)
use crate::moves::{Move, MoveType};
use crate::pieces::Piece;
use crate::transposition::{Bounds, Entry};

pub const PIECES: [Piece; 6] = [Piece::Pawn, Piece::Knight, Piece::Bishop, Piece::Rook, Piece::Queen, Piece::King];
pub const KINDS: [MoveType; 5] = [MoveType::Quiet, MoveType::Capture, MoveType::EnPassant, MoveType::Castle, MoveType::Promotion];
pub const BOUNDS: [Bounds; 3] = [Bounds::Exact, Bounds::Lower, Bounds::Upper];

pub fn piece_name(p: Piece) -> &'static str {
    match p { Piece::Pawn => "P", Piece::Knight => "N", Piece::Bishop => "B", Piece::Rook => "R", Piece::Queen => "Q", Piece::King => "K" }
}
pub fn parse_piece(s: &str) -> Option<Piece> {
    PIECES.iter().copied().find(|p| piece_name(*p) == s)
}
pub fn kind_name(k: MoveType) -> &'static str {
    match k { MoveType::Quiet => "q", MoveType::Capture => "c", MoveType::EnPassant => "e", MoveType::Castle => "k", MoveType::Promotion => "p" }
}
pub fn parse_kind(s: &str) -> Option<MoveType> {
    KINDS.iter().copied().find(|k| kind_name(*k) == s)
}
/// canonical text of a move: from:to:piece:kind (the engine's own 4-tuple, nothing abstracted)
pub fn mv_text(m: &Move) -> String {
    format!("{}:{}:{}:{}", m.from, m.to, piece_name(m.piece_type), kind_name(m.move_type))
}
pub fn opt_mv_text(m: &Option<Move>) -> String { match m { Some(m) => mv_text(m), None => "-".into() } }
pub fn parse_mv(s: &str) -> Option<Move> {
    let p: Vec<&str> = s.split(':').collect();
    if p.len() != 4 { return None; }
    Some(Move::new(p[0].parse().ok()?, p[1].parse().ok()?, parse_piece(p[2])?, parse_kind(p[3])?))
}
/// outer None = parse failure, Some(None) = "-"
pub fn parse_opt_mv(s: &str) -> Option<Option<Move>> {
    if s == "-" { Some(None) } else { parse_mv(s).map(Some) }
}
pub fn bounds_name(b: Bounds) -> &'static str { match b { Bounds::Exact => "E", Bounds::Lower => "L", Bounds::Upper => "U" } }
pub fn parse_bounds(s: &str) -> Option<Bounds> { BOUNDS.iter().copied().find(|b| bounds_name(*b) == s) }
pub fn entry_text(e: Option<&Entry>) -> String {
    match e {
        None => "none".into(),
        Some(e) => format!("{} {} {} {} {}", e.hash_key, e.eval, opt_mv_text(&e.best_move), e.depth, bounds_name(e.bounds)),
    }
}

// ---------------------------------------------------------------- boards
use crate::board::{Board, Castle, Position};
use crate::pieces::Color;

/// canonical board text: p,n,b,r,q,k,white,black,side,castle-mask,ep,half,full  (raw bitboards so that
/// malformed boards can be expressed too)
pub fn board_text(b: &Board) -> String {
    let (wk, wq) = b.castling_ability(Color::White);
    let (bk, bq) = b.castling_ability(Color::Black);
    let mask = (wk as u8) | (wq as u8) << 1 | (bk as u8) << 2 | (bq as u8) << 3;
    format!(
        "{},{},{},{},{},{},{},{},{},{},{},{},{}",
        b.bb_piece(Piece::Pawn), b.bb_piece(Piece::Knight), b.bb_piece(Piece::Bishop), b.bb_piece(Piece::Rook),
        b.bb_piece(Piece::Queen), b.bb_piece(Piece::King), b.bb_color(Color::White), b.bb_color(Color::Black),
        if b.active_color == Color::White { "w" } else { "b" }, mask,
        match b.en_passant_target { Some(s) => s.to_string(), None => "-".into() },
        b.halfmove_clock, b.fullmove_counter
    )
}

/// builds a Board from raw bitboards through the public API only (Position::new + add_piece per bit;
/// a square set in a colour board but in no piece board, or vice versa, cannot be expressed and yields None)
pub fn board_from_raw(pcs: [u64; 6], white: u64, black: u64, side: Color, mask: u8, ep: Option<u8>, half: u32, full: u32) -> Option<Board> {
    let mut pos = Position::new();
    let all_p = pcs.iter().fold(0u64, |a, b| a | b);
    if all_p != (white | black) { return None; }
    for (i, p) in PIECES.iter().enumerate() {
        for sq in 0..64u8 {
            if pcs[i] >> sq & 1 == 1 {
                if white >> sq & 1 == 1 { pos.add_piece(Color::White, *p, sq); }
                if black >> sq & 1 == 1 { pos.add_piece(Color::Black, *p, sq); }
            }
        }
    }
    let b = Board {
        position: pos,
        active_color: side,
        castling_ability: Castle::new(mask & 1 != 0, mask & 2 != 0, mask & 4 != 0, mask & 8 != 0),
        en_passant_target: ep,
        halfmove_clock: half as _,
        fullmove_counter: full as _,
    };
    // make sure the round trip is exact (overlapping piece boards are fine, they are reproduced bit for bit)
    for (i, p) in PIECES.iter().enumerate() { if b.bb_piece(*p) != pcs[i] { return None; } }
    if b.bb_color(Color::White) != white || b.bb_color(Color::Black) != black { return None; }
    Some(b)
}

thread_local! { pub static VIA_FEN: std::cell::Cell<bool> = std::cell::Cell::new(false); }

/// the board of an operation as the IMPLEMENTATION sees it.  In via-FEN mode (set by the generators of the properties whose
/// observable is "position in, moves / answer out") a valid board is not assembled from raw bitboards but handed to the
/// engine the way a user hands it over: as FEN text through `Board::new` — so that the FEN reader is part of what is checked.
pub fn parse_board(s: &str) -> Option<Board> {
    let b = parse_board_raw(s)?;
    if VIA_FEN.with(|v| v.get()) && crate::refchess::valid(&b) {
        return Some(Board::new(&fen_of(&b)));
    }
    Some(b)
}

pub fn parse_board_raw(s: &str) -> Option<Board> {
    let f: Vec<&str> = s.split(',').collect();
    if f.len() != 13 { return None; }
    let mut pcs = [0u64; 6];
    for i in 0..6 { pcs[i] = f[i].parse().ok()?; }
    let white: u64 = f[6].parse().ok()?;
    let black: u64 = f[7].parse().ok()?;
    let side = match f[8] { "w" => Color::White, "b" => Color::Black, _ => return None };
    let mask: u8 = f[9].parse().ok()?;
    let ep = if f[10] == "-" { None } else { Some(f[10].parse::<u8>().ok()?) };
    board_from_raw(pcs, white, black, side, mask, ep, f[11].parse().ok()?, f[12].parse().ok()?)
}

pub fn sorted_moves(ms: &[Move]) -> String {
    let mut v: Vec<String> = ms.iter().map(mv_text).collect();
    v.sort();
    v.join(" ")
}

// ---------------------------------------------------------------- FEN / UCI text written independently of the engine
pub fn fen_of(b: &Board) -> String {
    let m = crate::refchess::mailbox(b).expect("consistent board");
    let mut s = String::new();
    for r in (0..8).rev() {
        let mut empty = 0;
        for f in 0..8 {
            match m[r * 8 + f] {
                None => empty += 1,
                Some((c, p)) => {
                    if empty > 0 { s += &empty.to_string(); empty = 0; }
                    let ch = match p { Piece::Pawn => 'p', Piece::Knight => 'n', Piece::Bishop => 'b', Piece::Rook => 'r', Piece::Queen => 'q', Piece::King => 'k' };
                    s.push(if c == Color::White { ch.to_ascii_uppercase() } else { ch });
                }
            }
        }
        if empty > 0 { s += &empty.to_string(); }
        if r > 0 { s.push('/'); }
    }
    s.push(' ');
    s.push(if b.active_color == Color::White { 'w' } else { 'b' });
    s.push(' ');
    let (wk, wq) = b.castling_ability(Color::White);
    let (bk, bq) = b.castling_ability(Color::Black);
    if !(wk || wq || bk || bq) { s.push('-'); } else {
        if wk { s.push('K'); } if wq { s.push('Q'); } if bk { s.push('k'); } if bq { s.push('q'); }
    }
    s.push(' ');
    match b.en_passant_target { None => s.push('-'), Some(e) => { s.push((b'a' + e % 8) as char); s.push((b'1' + e / 8) as char); } }
    s += &format!(" {} {}", b.halfmove_clock, b.fullmove_counter);
    s
}

pub fn uci_text(m: &Move) -> String {
    let sq = |s: u8| format!("{}{}", (b'a' + s % 8) as char, (b'1' + s / 8) as char);
    let promo = if m.move_type == MoveType::Promotion {
        match m.piece_type { Piece::Knight => "n", Piece::Bishop => "b", Piece::Rook => "r", Piece::Queen => "q", _ => "" }
    } else { "" };
    format!("{}{}{}", sq(m.from), sq(m.to), promo)
}
