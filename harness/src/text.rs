// canonical text forms shared by all generators (must match lean/Driver/Text.lean)
use crate::moves::{Move, MoveType};
use crate::pieces::Piece;
use crate::transposition::{Bounds, Entry};

pub const PIECES: [Piece; 6] = [Piece::Pawn, Piece::Knight, Piece::Bishop, Piece::Rook, Piece::Queen, Piece::King];
pub const KINDS: [MoveType; 5] = [MoveType::Quiet, MoveType::Capture, MoveType::EnPassant, MoveType::Castle, MoveType::Promotion];
pub const BOUNDS: [Bounds; 3] = [Bounds::Exact, Bounds::Lower, Bounds::Upper];

pub fn piece_name(p: Piece) -> &'static str {
    match p { Piece::Pawn => "P", Piece::Knight => "N", Piece::Bishop => "B", Piece::Rook => "R", Piece::Queen => "Q", Piece::King => "K" }
}
pub fn parse_piece(s: &str) -> Option<Piece> {
    PIECES.iter().copied().find(|p| piece_name(*p) == s)
}
pub fn kind_name(k: MoveType) -> &'static str {
    match k { MoveType::Quiet => "q", MoveType::Capture => "c", MoveType::EnPassant => "e", MoveType::Castle => "k", MoveType::Promotion => "p" }
}
pub fn parse_kind(s: &str) -> Option<MoveType> {
    KINDS.iter().copied().find(|k| kind_name(*k) == s)
}
/// canonical text of a move: from:to:piece:kind (the engine's own 4-tuple, nothing abstracted)
pub fn mv_text(m: &Move) -> String {
    format!("{}:{}:{}:{}", m.from, m.to, piece_name(m.piece_type), kind_name(m.move_type))
}
pub fn opt_mv_text(m: &Option<Move>) -> String { match m { Some(m) => mv_text(m), None => "-".into() } }
pub fn parse_mv(s: &str) -> Option<Move> {
    let p: Vec<&str> = s.split(':').collect();
    if p.len() != 4 { return None; }
    Some(Move::new(p[0].parse().ok()?, p[1].parse().ok()?, parse_piece(p[2])?, parse_kind(p[3])?))
}
/// outer None = parse failure, Some(None) = "-"
pub fn parse_opt_mv(s: &str) -> Option<Option<Move>> {
    if s == "-" { Some(None) } else { parse_mv(s).map(Some) }
}
pub fn bounds_name(b: Bounds) -> &'static str { match b { Bounds::Exact => "E", Bounds::Lower => "L", Bounds::Upper => "U" } }
pub fn parse_bounds(s: &str) -> Option<Bounds> { BOUNDS.iter().copied().find(|b| bounds_name(*b) == s) }
pub fn entry_text(e: Option<&Entry>) -> String {
    match e {
        None => "none".into(),
        Some(e) => format!("{} {} {} {} {}", e.hash_key, e.eval, opt_mv_text(&e.best_move), e.depth, bounds_name(e.bounds)),
    }
}
