// A deliberately simple, independent mailbox view of a board used ONLY by the generators (validity
// filter for constructed positions and distribution statistics).  The oracle is the Lean spec, not this.
use crate::board::Board;
use crate::pieces::{Color, Piece};
use crate::text::PIECES;

pub type Mailbox = [Option<(Color, Piece)>; 64];

pub fn mailbox(b: &Board) -> Option<Mailbox> {
    let mut m: Mailbox = [None; 64];
    for sq in 0..64u8 {
        let mut found = None;
        let mut n = 0;
        for c in [Color::White, Color::Black] {
            for p in PIECES {
                if b.bb(c, p) >> sq & 1 == 1 { found = Some((c, p)); n += 1; }
            }
        }
        let in_color = (b.bb_color(Color::White) >> sq & 1) + (b.bb_color(Color::Black) >> sq & 1);
        let in_piece: u64 = PIECES.iter().map(|p| b.bb_piece(*p) >> sq & 1).sum();
        if n > 1 || in_color > 1 || in_piece > 1 || (n == 0 && (in_color + in_piece) > 0) { return None; }
        m[sq as usize] = found;
    }
    Some(m)
}

fn on(r: i32, f: i32) -> bool { (0..8).contains(&r) && (0..8).contains(&f) }

/// is square `s` attacked by a man of colour `by`?
pub fn attacked(m: &Mailbox, s: usize, by: Color) -> bool {
    let (r, f) = ((s / 8) as i32, (s % 8) as i32);
    let at = |r: i32, f: i32| -> Option<(Color, Piece)> { if on(r, f) { m[(r * 8 + f) as usize] } else { None } };
    let pr = if by == Color::White { r - 1 } else { r + 1 };
    for df in [-1, 1] { if at(pr, f + df) == Some((by, Piece::Pawn)) { return true; } }
    for (dr, df) in [(1, 2), (2, 1), (-1, 2), (-2, 1), (1, -2), (2, -1), (-1, -2), (-2, -1)] {
        if at(r + dr, f + df) == Some((by, Piece::Knight)) { return true; }
    }
    for dr in -1..=1 { for df in -1..=1 { if (dr, df) != (0, 0) && at(r + dr, f + df) == Some((by, Piece::King)) { return true; } } }
    for (dr, df, diag) in [(1, 0, false), (-1, 0, false), (0, 1, false), (0, -1, false), (1, 1, true), (1, -1, true), (-1, 1, true), (-1, -1, true)] {
        let (mut rr, mut ff) = (r + dr, f + df);
        while on(rr, ff) {
            if let Some((c, p)) = at(rr, ff) {
                if c == by && (p == Piece::Queen || (diag && p == Piece::Bishop) || (!diag && p == Piece::Rook)) { return true; }
                break;
            }
            rr += dr; ff += df;
        }
    }
    false
}

pub fn king_sq(m: &Mailbox, c: Color) -> Option<usize> {
    let ks: Vec<usize> = (0..64).filter(|s| m[*s] == Some((c, Piece::King))).collect();
    if ks.len() == 1 { Some(ks[0]) } else { None }
}

/// the quantifier "valid position" of the properties (same definition as Lean's `Valid`)
pub fn valid(b: &Board) -> bool {
    let m = match mailbox(b) { Some(m) => m, None => return false };
    let (wk, bk) = match (king_sq(&m, Color::White), king_sq(&m, Color::Black)) { (Some(a), Some(b)) => (a, b), _ => return false };
    for s in (0..8).chain(56..64) { if let Some((_, Piece::Pawn)) = m[s] { return false; } }
    let side = b.active_color;
    let other = !side;
    let oks = if other == Color::White { wk } else { bk };
    if attacked(&m, oks, side) { return false; }
    let (wks, wqs) = b.castling_ability(Color::White);
    let (bks, bqs) = b.castling_ability(Color::Black);
    if (wks || wqs) && wk != 4 { return false; }
    if (bks || bqs) && bk != 60 { return false; }
    if wks && m[7] != Some((Color::White, Piece::Rook)) { return false; }
    if wqs && m[0] != Some((Color::White, Piece::Rook)) { return false; }
    if bks && m[63] != Some((Color::Black, Piece::Rook)) { return false; }
    if bqs && m[56] != Some((Color::Black, Piece::Rook)) { return false; }
    if let Some(ep) = b.en_passant_target {
        let ep = ep as usize;
        if ep >= 64 { return false; }
        if side == Color::White {
            if ep / 8 != 5 || m[ep].is_some() || m[ep - 8] != Some((Color::Black, Piece::Pawn)) || m[ep + 8].is_some() { return false; }
        } else {
            if ep / 8 != 2 || m[ep].is_some() || m[ep + 8] != Some((Color::White, Piece::Pawn)) || m[ep - 8].is_some() { return false; }
        }
    }
    true
}

pub fn men(b: &Board) -> u32 { (b.bb_color(Color::White) | b.bb_color(Color::Black)).count_ones() }

pub fn in_check(b: &Board) -> bool {
    let m = match mailbox(b) { Some(m) => m, None => return false };
    match king_sq(&m, b.active_color) { Some(k) => attacked(&m, k, !b.active_color), None => false }
}
