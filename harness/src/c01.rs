// C01 / C17: generated move sets, check test and quiescence move sets on valid positions.
use crate::common::{Out, Rng};
use crate::moves::MoveType;
use crate::ops::ImplState;
use crate::posgen::{self, Gen};
use crate::text::*;

pub fn run(rng: &mut Rng, n: usize, out: &mut Out, which: &str) {
    let mut st = ImplState::new();
    let g = Gen::new();
    // corpus first (every hand-made tricky position, then positions after each legal move from them)
    let mut queue: Vec<crate::board::Board> = Vec::new();
    for fen in posgen::CORPUS { queue.push(crate::board::Board::new(fen)); }
    let base = queue.clone();
    for b in &base { for m in g.mg.generate_moves(b) { if queue.len() < 1500 { queue.push(b.clone_with_move(&m)); } } }
    let mut i = 0;
    while i < n {
        let b = if i < queue.len() { queue[i] } else { g.valid_position(rng, out) };
        i += 1;
        if !crate::refchess::valid(&b) { out.count("skipped_invalid"); continue; }
        posgen::describe(&b, out);
        let bt = board_text(&b);
        let ms = g.mg.generate_moves(&b);
        for m in &ms { out.count(&format!("gen_kind_{}", kind_name(m.move_type))); }
        if ms.iter().any(|m| m.move_type == MoveType::Castle) { out.count("pos_with_castle_legal"); }
        if ms.iter().any(|m| m.move_type == MoveType::EnPassant) { out.count("pos_with_ep_legal"); }
        if ms.is_empty() { out.count("pos_no_moves"); }
        out.nontrivial(&bt);
        if which == "c01" {
            let a = out.run(&mut st, &format!("legal {}", bt));
            if i <= 2 { out.sample(format!("legal {} => {}", bt, a)); }
            out.run(&mut st, &format!("gen {}", bt));
            out.run(&mut st, &format!("incheck {}", bt));
        } else {
            let a = out.run(&mut st, &format!("qmoves {}", bt));
            if i <= 2 { out.sample(format!("qmoves {} => {}", bt, a)); }
            out.run(&mut st, &format!("qset {}", bt));
        }
    }
}
