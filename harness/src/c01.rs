// C01 / C17: generated move sets, check test and quiescence move sets on valid positions.
use crate::common::{Out, Rng};
use crate::moves::MoveType;
use crate::ops::ImplState;
use crate::posgen::{self, Gen};
use crate::text::*;

pub fn run(rng: &mut Rng, n: usize, out: &mut Out, which: &str) {
    let mut st = ImplState::new();
    let g = Gen::new();
    out.run(&mut st, "impl.viafen on");
    // corpus first (every hand-made tricky position, then positions after each legal move from them)
    let mut queue: Vec<crate::board::Board> = Vec::new();
    for fen in posgen::CORPUS { queue.push(crate::board::Board::new(fen)); }
    let base = queue.clone();
    for b in &base { for m in g.mg.generate_moves(b) { if queue.len() < 1500 { queue.push(b.clone_with_move(&m)); } } }
    let mut i = 0;
    while i < n {
        let b = if i < queue.len() { queue[i] } else { g.valid_position(rng, out) };
        i += 1;
        if !crate::refchess::valid(&b) { out.count("skipped_invalid"); continue; }
        posgen::describe(&b, out);
        let bt = board_text(&b);
        let ms = g.mg.generate_moves(&b);
        for m in &ms { out.count(&format!("gen_kind_{}", kind_name(m.move_type))); }
        if ms.iter().any(|m| m.move_type == MoveType::Castle) { out.count("pos_with_castle_legal"); }
        if ms.iter().any(|m| m.move_type == MoveType::EnPassant) { out.count("pos_with_ep_legal"); }
        if ms.is_empty() { out.count("pos_no_moves"); }
        out.nontrivial(&bt);
        if which == "c01" {
            let a = out.run(&mut st, &format!("legal {}", bt));
            if i <= 2 { out.sample(format!("legal {} => {}", bt, a)); }
            out.run(&mut st, &format!("gen {}", bt));
            out.run(&mut st, &format!("incheck {}", bt));
        } else {
            let a = out.run(&mut st, &format!("qmoves {}", bt));
            if i <= 2 { out.sample(format!("qmoves {} => {}", bt, a)); }
            // the selection made INSIDE search_until_quiet must not depend on what that searcher did before: now and then
            // a burst of searches cut off by a deadline inside deep quiescence precedes the observation
            if i % 9 == 4 {
                for k in 0..8u64 {
                    let tb = if k % 2 == 0 { crate::board::Board::new("r3k2r/p1ppqpb1/bn2pnp1/3PN3/1p2P3/2N2Q1p/PPPBBPPP/R3K2R w KQkq - 0 1") } else { crate::board::Board::new("q3k2q/8/8/3QQ3/3qq3/8/8/Q3K2Q w - - 0 1") };
                    out.run(&mut st, &format!("qstress {} {} {}", board_text(&tb), 2 + k % 2, 40 + 37 * k + rng.below(200)));
                    out.count("interrupted_searches_before_observation");
                }
            }
            // ... and now and then a COMPLETED shallow search of this very position: what it leaves in the table (a best move,
            // usually a quiet one) must not leak into the selection either
            if i % 4 == 1 && !ms.is_empty() && crate::csearch::nodes_capped(&b, 2, 4000) < 4000 {
                // (qstress with a node budget far above the measured tree size = a completed search on the observed searcher)
                out.run(&mut st, &format!("qstress {} {} 100000000", bt, 1 + (i % 8) / 4));
                out.count("completed_searches_before_observation");
            }
            out.run(&mut st, &format!("qset {}", bt));
        }
    }
}
