// Generators for C08 (mate in one / avoidable mate), C03 (legal bestmove under every deadline and history),
// C09 / C04 (position command: reconstruction and recorded history) through the in-process hooks.
use crate::board::Board;
use crate::common::{Out, Rng};
use crate::csearch::{pick_search_position, qsize, small_position};
use crate::moves::{Move, MoveType};
use crate::ops::{zobrist_keys_text, ImplState};
use crate::posgen::{self, Gen};
use crate::text::*;

fn fresh_keys(st: &mut ImplState, out: &mut Out, op: &str) {
    let z = crate::zobrist::ZobristTable::new();
    out.run(st, &format!("{} {}", op, zobrist_keys_text(&z)));
}

fn is_mate(g: &Gen, b: &Board) -> bool { g.mg.generate_moves(b).is_empty() && g.mg.is_in_check(b) }
fn has_mate_in_one(g: &Gen, b: &Board) -> bool { g.mg.generate_moves(b).iter().any(|m| is_mate(g, &b.clone_with_move(m))) }

pub fn run(rng: &mut Rng, n: usize, out: &mut Out, which: &str) {
    let mut st = ImplState::new();
    let g = Gen::new();
    if which == "c08" || which == "c03" { out.run(&mut st, "impl.viafen on"); }
    let mut case = 0;
    let mut guard = 0u64;
    while case < n {
        guard += 1;
        if guard > 200 * n as u64 + 100000 { break; }
        match which {
            // ------------------------------------------------------------------ C08
            "c08" => {
                // candidates: play-outs and small positions with heavy pieces; keep those with a mate in one (part a)
                // or with both kinds of moves (part b)
                let b = match rng.below(7) {
                    0 | 1 => g.playout(rng, 120),
                    2 => match promo_mate_position(&g, rng) { Some(b) => { out.count("promotion_family_candidates"); b } None => continue },
                    3 => match minor_corner(&g, rng) { Some(b) => { out.count("minor_piece_corner_candidates"); b } None => continue },
                    4 => match discovered_battery(&g, rng) { Some(b) => { out.count("discovered_check_battery_candidates"); b } None => continue },
                    _ => match heavy_small(&g, rng) { Some(b) => b, None => continue },
                };
                let mut b = b;
                crate::csearch::vary_counters(&mut b, rng);
                if !crate::refchess::valid(&b) { continue; }
                let ms = g.mg.generate_moves(&b);
                if ms.is_empty() { continue; }
                let m1 = has_mate_in_one(&g, &b);
                let allows: Vec<bool> = ms.iter().map(|m| has_mate_in_one(&g, &b.clone_with_move(m))).collect();
                let mixed = allows.iter().any(|x| *x) && allows.iter().any(|x| !*x);
                if !m1 && !mixed { continue; }
                if qsize(&mut st, &b, 4000).is_none() { out.count("skipped_explosive_quiescence"); continue; }
                case += 1;
                out.op(&format!("case {}", case), "ok");
                fresh_keys(&mut st, out, "s.new");
                for _ in 0..2 {
                    let pb = match rng.below(3) { 0 => g.ep_family(rng), 1 => g.pin_family(rng), _ => Some(g.valid_position(rng, out)) };
                    if let Some(pb) = pb { if crate::refchess::valid(&pb) { out.run(&mut st, &format!("legal {}", board_text(&pb))); out.count("position_intake_move_sets"); } }
                }
                let bt = board_text(&b);
                if m1 {
                    out.count("positions_with_mate_in_one");
                    if ms.iter().any(|m| m.move_type == MoveType::Promotion && is_mate(&g, &b.clone_with_move(m))) { out.count("positions_with_mate_by_promotion"); }
                    for d in 1..=4u8 {
                        if d == 4 && crate::refchess::men(&b) > 7 { continue; }
                        if d == 3 && crate::refchess::men(&b) > 14 { continue; }
                        if d >= 2 && crate::csearch::nodes_capped(&b, d, 40000) >= 40000 { out.count("skipped_explosive_search"); continue; }
                        let a = out.run(&mut st, &format!("s.fresh {} {}", bt, d));
                        let f: Vec<&str> = a.split_whitespace().collect();
                        if f.len() >= 2 {
                            let j = format!("s.judge {} mate1 {}", bt, f[1]);
                            let ja = out.run(&mut st, &j);
                            if case <= 3 && d == 1 { out.sample(format!("{} => {}", j, ja)); }
                            out.count(&format!("mate1_depth_{}", d));
                        }
                    }
                }
                if mixed {
                    out.count("positions_with_safe_and_unsafe_moves");
                    if allows.iter().filter(|x| !**x).count() == 1 { out.count("positions_with_single_safe_move"); }
                    for d in 2..=3u8 {
                        if d == 3 && crate::refchess::men(&b) > 10 { continue; }
                        if crate::csearch::nodes_capped(&b, d, 40000) >= 40000 { out.count("skipped_explosive_search"); continue; }
                        let a = out.run(&mut st, &format!("s.fresh {} {}", bt, d));
                        let f: Vec<&str> = a.split_whitespace().collect();
                        if f.len() >= 2 { out.run(&mut st, &format!("s.judge {} safe {}", bt, f[1])); out.count(&format!("safe_depth_{}", d)); }
                    }
                }
                out.nontrivial(&bt);
            }
            // ------------------------------------------------------------------ C03 (in-process part)
            "c03" => {
                case += 1;
                out.op(&format!("case {}", case), "ok");
                fresh_keys(&mut st, out, "s.new");
                // a history of earlier searches on other positions / other games fills TT, killers, history table
                for _ in 0..rng.below(4) {
                    let b = pick_search_position(&g, &mut st, rng, out, 2000);
                    let lim = match rng.below(3) { 0 => format!("nodes:{}", 1 + rng.below(200)), 1 => format!("polls:{}", rng.below(100)), _ => "none".into() };
                    let d0 = crate::csearch::affordable_depth(&b, 1 + rng.below(3) as u8, 30000);
                    if d0 == 0 { out.count("skipped_explosive_search"); continue; }
                    out.run(&mut st, &format!("s.go {} {} {}", board_text(&b), d0, lim));
                    out.count("earlier_searches");
                }
                let b = pick_search_position(&g, &mut st, rng, out, 2000);
                let bt = board_text(&b);
                let d = crate::csearch::affordable_depth(&b, 1 + rng.below(3) as u8, 30000).max(1);
                // deadline at every early poll (incl. 0 = zero budget), then sampled, then none
                let mut lims: Vec<String> = (0..12).map(|k| format!("polls:{}", k)).collect();
                for _ in 0..6 { lims.push(format!("polls:{}", rng.below(2000))); lims.push(format!("nodes:{}", rng.below(1500))); }
                lims.push("none".into());
                for lim in lims {
                    let a = out.run(&mut st, &format!("s.go {} {} {}", bt, d, lim));
                    let f: Vec<&str> = a.split_whitespace().collect();
                    if f.len() >= 2 {
                        let j = format!("s.judge {} legal {}", bt, f[1]);
                        let ja = out.run(&mut st, &j);
                        if case <= 2 && lim == "polls:0" { out.sample(format!("s.go .. {} {} => {} ; judge => {}", d, lim, a.chars().take(60).collect::<String>(), ja)); }
                        out.count("bestmoves_judged");
                        if lim == "polls:0" { out.count("zero_budget"); }
                    }
                    out.nontrivial(&format!("{} {}", bt, lim));
                }
                // twins: a position whose completed search answers with a castling move / an en-passant capture, then the SAME
                // placement without that castling right / without the en-passant square, searched no deeper on the same
                // searcher: whatever the table remembers of the first must not leak an illegal move into the second
                if rng.chance(1, 2) {
                    if let Some((p1, p2, d1)) = twin_case(&g, rng) {
                        fresh_keys(&mut st, out, "s.new");
                        let a1 = out.run(&mut st, &format!("s.go {} {} none", board_text(&p1), d1));
                        let f1: Vec<&str> = a1.split_whitespace().collect();
                        if f1.len() >= 2 { out.run(&mut st, &format!("s.judge {} legal {}", board_text(&p1), f1[1])); }
                        for d2 in (1..=d1).rev() {
                            let a2 = out.run(&mut st, &format!("s.go {} {} none", board_text(&p2), d2));
                            let f2: Vec<&str> = a2.split_whitespace().collect();
                            if f2.len() >= 2 { out.run(&mut st, &format!("s.judge {} legal {}", board_text(&p2), f2[1])); out.count("twin_positions_judged"); }
                        }
                    } else { out.count("twin_case_not_found"); }
                }
                // a whole engine session around the castling rights: kings and rooks at home with rights, a few plies in which rooks are
                // captured on their home squares, leave and return; then the engine's own answer, judged by the rules' position
                if rng.chance(1, 2) {
                    if let Some((start, moves)) = castling_session(&g, rng) {
                        fresh_keys(&mut st, out, "eng.new");
                        let mut line = format!("position fen {}", fen_of(&start));
                        if !moves.is_empty() { line += " moves"; for m in &moves { line += " "; line += &uci_text(m); } }
                        out.run(&mut st, &format!("eng.pos {} {} | {}", board_text(&start), moves.iter().map(mv_text).collect::<Vec<_>>().join(" "), line));
                        let mut cur = start;
                        for m in &moves { cur.make_move(m); }
                        for d in 1..=3u8 {
                            if crate::csearch::nodes_capped(&cur, d, 20000) >= 20000 { break; }
                            let a = out.run(&mut st, &format!("eng.go {}", d));
                            let f: Vec<&str> = a.split_whitespace().collect();
                            if f.len() >= 2 { out.run(&mut st, &format!("eng.judgelegal {}", f[1])); out.count("engine_session_answers_judged"); }
                        }
                    }
                }
                // position intake: the moves generated for a position handed over as FEN text (en passant squares on every file,
                // pins, castling rights) — the answer of a search can only be as good as that
                for _ in 0..2 {
                    let pb = match rng.below(3) { 0 => g.ep_family(rng), 1 => g.pin_family(rng), _ => Some(g.valid_position(rng, out)) };
                    if let Some(pb) = pb { if crate::refchess::valid(&pb) { out.run(&mut st, &format!("legal {}", board_text(&pb))); out.count("position_intake_move_sets"); } }
                }
                // positions without legal moves must answer "no move"
                if rng.chance(1, 3) {
                    for fen in ["7k/5Q2/6K1/8/8/8/8/8 b - - 0 1", "7k/6Q1/6K1/8/8/8/8/8 b - - 0 1"] {
                        let tb = Board::new(fen);
                        let a = out.run(&mut st, &format!("s.go {} 2 none", board_text(&tb)));
                        let f: Vec<&str> = a.split_whitespace().collect();
                        if f.len() >= 2 { out.run(&mut st, &format!("s.judge {} legal {}", board_text(&tb), f[1])); out.count("terminal_positions_judged"); }
                    }
                }
            }
            // ------------------------------------------------------------------ C04 / C09 (position command)
            "c04" | "c09" => {
                case += 1;
                out.op(&format!("case {}", case), "ok");
                fresh_keys(&mut st, out, "eng.new");
                // one case in five is the scenario "game A, something else B, game A again (same list or more moves)";
                // A is a startpos game half of the time and a FEN game otherwise
                let back_scenario = which == "c04" && rng.chance(1, 5);
                let back_startpos = rng.chance(1, 2);
                if back_scenario { out.count("scenario_game_other_game_again"); }
                let ncmds = if back_scenario { 3 } else { 1 + rng.below(4) };
                // the previous command of this engine (start, was it startpos, moves): GUIs send the whole game again with one
                // more move, take moves back, or start another game from the same position — related commands in a row
                let mut prev: Option<(Board, bool, Vec<Move>)> = None;
                // ... and the one before that: a GUI that analyses another position in between comes BACK to the game
                // (A, B, A + more moves): anything remembered about A must not survive B
                let mut prev2: Option<(Board, bool, Vec<Move>)> = None;
                for ci in 0..ncmds {
                    // start: startpos, corpus FEN, or a generated valid position; counters from the interesting set
                    // a new game between two commands now and then; the command after it usually repeats or extends the previous
                    // game (what a GUI does when the same opening is played again)
                    let newgame = which == "c04" && ci > 0 && !back_scenario && rng.chance(1, 3);
                    let related = if back_scenario { if ci == 2 { *rng.pick(&[1u64, 1, 5]) } else { 0 } } else if which == "c04" && prev.is_some() && (if newgame { rng.chance(3, 4) } else { rng.chance(3, 5) }) { if newgame { *rng.pick(&[1u64, 1, 5, 5, 2, 3]) } else { 1 + rng.below(5) } } else { 0 };
                    if newgame {
                        out.run(&mut st, &format!("eng.pos {} | ucinewgame", board_text(&Board::default())));
                        // the engine has drawn new hash keys: tell the model which
                        let keys = zobrist_keys_text(st.uci.verif_searcher().verif_zobrist());
                        out.run(&mut st, &format!("eng.keys {}", keys));
                        out.count("ucinewgame_between_position_commands");
                    }
                    let mut use_startpos = if back_scenario { (ci == 0) == back_startpos } else { rng.chance(1, 3) };
                    let mut start = if use_startpos { Board::default() } else if rng.chance(1, 2) { Board::new(*rng.pick(posgen::CORPUS)) } else { g.valid_position(rng, out) };
                    let mut forced_prefix: Vec<Move> = Vec::new();
                    let mut replay_tail: Vec<Move> = Vec::new();
                    if related > 0 {
                        let back = prev2.is_some() && (back_scenario || rng.chance(2, 5));
                        if back { out.count("related_to_the_command_before_last"); }
                        let (ps, pu, pm) = if back { prev2.clone().unwrap() } else { prev.clone().unwrap() };
                        start = ps;
                        use_startpos = pu;
                        match related {
                            1 => { forced_prefix = pm.clone(); out.count("related_cmd_extension"); }                               // same game, more moves
                            2 => { forced_prefix = pm[..pm.len() / 2].to_vec(); out.count("related_cmd_takeback"); }               // moves taken back
                            3 => { forced_prefix = pm[..pm.len().min(rng.below(3) as usize)].to_vec(); replay_tail = pm.clone(); out.count("related_cmd_other_game_same_texts"); } // another game, same move texts later
                            5 => { forced_prefix = pm.clone(); out.count("related_cmd_same_game_again"); }                          // exactly the same list
                            _ => { forced_prefix = pm.clone(); if !forced_prefix.is_empty() { forced_prefix.pop(); } out.count("related_cmd_last_move_replaced"); }
                        }
                    }
                    if !crate::refchess::valid(&start) { continue; }
                    if !use_startpos {
                        start.halfmove_clock = *rng.pick(&[0u32, 1, 49, 99, 100, 150]) as _;
                        start.fullmove_counter = *rng.pick(&[1u32, 2, 49, 255, 256, 300, 5949, 65535]) as _;
                    }
                    // a game from there; for C09 bias towards shuffling back and forth so that positions repeat
                    let long = rng.chance(1, 8);
                    // ... and, rarely, a game of more than a thousand plies in one command (fixed-size buffers, counters)
                    let very_long = which == "c04" && rng.chance(1, 60);
                    let plies = if which == "c09" { 4 + rng.below(14) } else if back_scenario { 1 + rng.below(8) } else { rng.below(if long { 200 } else { 30 }) };
                    let mut b = start;
                    let mut played: Vec<Move> = Vec::new();
                    for m in &forced_prefix {
                        if g.mg.generate_moves(&b).iter().any(|x| mv_text(x) == mv_text(m)) { b.make_move(m); played.push(*m); } else { break; }
                    }
                    if !replay_tail.is_empty() {
                        // a different first move, then as many of the previous game's moves (same texts, same indices) as stay legal
                        let ms0 = g.mg.generate_moves(&b);
                        let idx = played.len();
                        let alt: Vec<&Move> = ms0.iter().filter(|x| idx >= replay_tail.len() || mv_text(x) != mv_text(&replay_tail[idx])).collect();
                        if !alt.is_empty() {
                            let m = **rng.pick(&alt);
                            b.make_move(&m); played.push(m);
                            while played.len() < replay_tail.len() {
                                let want = replay_tail[played.len()];
                                match g.mg.generate_moves(&b).into_iter().find(|x| mv_text(x) == mv_text(&want)) {
                                    Some(m2) => { b.make_move(&m2); played.push(m2); }
                                    None => { let ms1 = g.mg.generate_moves(&b); if ms1.is_empty() { break; } let m3 = *rng.pick(&ms1); b.make_move(&m3); played.push(m3); }
                                }
                            }
                        }
                    }
                    // C09: sometimes a LONG game in which a position occurs twice early and is approached a third time
                    // more than a hundred plies later (nothing in the rules limits how far back an occurrence may lie)
                    let mut plies = if related == 5 { 0 } else { plies };
                    if very_long && played.is_empty() {
                        let mut ms: Vec<Move> = Vec::new();
                        let mut bb = b;
                        while ms.len() < 1030 + rng.below(60) as usize {
                            let all = g.mg.generate_moves(&bb);
                            if all.is_empty() { break; }
                            // shuffle: undo my previous move when possible, else a quiet non-pawn move, else anything
                            let m = if ms.len() >= 2 { let prev = ms[ms.len() - 2]; all.iter().find(|x| x.from == prev.to && x.to == prev.from && x.piece_type == prev.piece_type && x.move_type == MoveType::Quiet).cloned() } else { None };
                            let m = m.unwrap_or_else(|| { let q: Vec<&Move> = all.iter().filter(|x| x.move_type == MoveType::Quiet && x.piece_type != crate::pieces::Piece::Pawn).collect(); if !q.is_empty() { **rng.pick(&q) } else { *rng.pick(&all) } });
                            bb.make_move(&m); ms.push(m);
                        }
                        if ms.len() > 1024 { b = bb; played = ms; plies = 2 + rng.below(4); out.count("very_long_games_over_1024_plies"); }
                    }
                    if which == "c09" && rng.chance(1, 4) {
                        if let Some(ms) = long_repetition_game(&g, rng, &start) {
                            for m in &ms { b.make_move(m); }
                            out.count("long_history_games");
                            out.add("long_history_plies", ms.len() as u64);
                            played = ms;
                            plies = rng.below(3);
                        }
                    }
                    for _ in 0..plies {
                        let ms = g.mg.generate_moves(&b);
                        if ms.is_empty() { break; }
                        let m = if which == "c09" && played.len() < 2 && rng.chance(1, 3) && ms.iter().any(|x| x.piece_type == crate::pieces::Piece::Pawn && (x.to as i32 - x.from as i32).abs() == 16) {
                            // a double pawn push early on: the position right after it carries an en-passant square and must not be
                            // counted as the same position as the identical placement without one
                            let dp: Vec<&Move> = ms.iter().filter(|x| x.piece_type == crate::pieces::Piece::Pawn && (x.to as i32 - x.from as i32).abs() == 16).collect();
                            let edge: Vec<&&Move> = dp.iter().filter(|x| x.from % 8 == 0 || x.from % 8 == 7).collect();
                            out.count("games_opening_with_a_double_pawn_push");
                            if !edge.is_empty() && rng.chance(1, 2) { ***rng.pick(&edge) } else { **rng.pick(&dp) }
                        } else if which == "c09" && played.len() >= 2 && rng.chance(3, 4) {
                            // undo my previous move if possible (piece returns to where it came from)
                            let prev = played[played.len() - 2];
                            match ms.iter().find(|x| x.from == prev.to && x.to == prev.from && x.piece_type == prev.piece_type && x.move_type == MoveType::Quiet) { Some(x) => *x, None => *rng.pick(&ms) }
                        } else if which == "c09" {
                            let quiet: Vec<&Move> = ms.iter().filter(|x| x.move_type == MoveType::Quiet && x.piece_type != crate::pieces::Piece::Pawn).collect();
                            if !quiet.is_empty() && rng.chance(4, 5) { **rng.pick(&quiet) } else { *rng.pick(&ms) }
                        } else {
                            // moves whose text looks like a castling move (or "king takes own rook") but is not one, promotions,
                            // captures, castles
                            let lookalike: Vec<&Move> = ms.iter().filter(|x| (x.from == 4 || x.from == 60) && [0u8, 2, 6, 7, 56, 58, 62, 63].contains(&x.to) && x.move_type != MoveType::Castle).collect();
                            let back_to_e: Vec<&Move> = ms.iter().filter(|x| (x.to == 4 || x.to == 60) && x.piece_type != crate::pieces::Piece::King).collect();
                            let special: Vec<&Move> = ms.iter().filter(|x| x.move_type != MoveType::Quiet).collect();
                            if !lookalike.is_empty() && rng.chance(1, 2) { out.count("cmd_castling_lookalike_moves"); **rng.pick(&lookalike) }
                            else if !back_to_e.is_empty() && rng.chance(1, 4) { **rng.pick(&back_to_e) }
                            else if !special.is_empty() && rng.chance(2, 5) { **rng.pick(&special) } else { *rng.pick(&ms) }
                        };
                        played.push(m);
                        b.make_move(&m);
                        out.count(&format!("cmd_move_kind_{}", kind_name(m.move_type)));
                        if m.move_type == MoveType::Promotion { out.count(&format!("cmd_promotion_{}", piece_name(m.piece_type))); }
                    }
                    let mut line = if use_startpos { "position startpos".to_string() } else { format!("position fen {}", fen_of(&start)) };
                    if !played.is_empty() { line += " moves"; for m in &played { line += " "; line += &uci_text(m); } }
                    // irregular spacing is part of the input domain
                    if rng.chance(1, 6) { line = line.replace(" ", "  "); }
                    prev2 = prev.take();
                    prev = Some((start, use_startpos, played.clone()));
                    let op = format!("eng.pos {} {} | {}", board_text(&start), played.iter().map(mv_text).collect::<Vec<_>>().join(" "), line);
                    let a = out.run(&mut st, &op);
                    if case <= 2 && ci == 0 { out.sample(format!("{} => {}", op.chars().take(400).collect::<String>(), a.chars().take(200).collect::<String>())); }
                    out.nontrivial(&line);
                    out.count("position_commands");
                    if !use_startpos { out.count(&format!("fen_fullmove_{}", start.fullmove_counter)); }
                    // C09: for every successor of the current position: does the engine regard it as a draw by repetition?
                    let mut any_third = false;
                    for m in g.mg.generate_moves(&b) {
                        let q = b.clone_with_move(&m);
                        let a = out.run(&mut st, &format!("eng.isdraw {}", board_text(&q)));
                        if a == "true" { any_third = true; }
                        out.count(if a == "true" { "successor_is_third_occurrence" } else { "successor_not_repetition" });
                    }
                    // ... and does the SEARCH value such a successor as a draw?  Only after the last position command of the
                    // case (the table is still empty then: results cached before this history existed are outside the property),
                    // on positions whose successors all have small quiescence trees (the reference value needs them)
                    if which == "c09" && ci + 1 == ncmds && (any_third || rng.chance(1, 4)) {
                        let succ: Vec<Board> = g.mg.generate_moves(&b).iter().map(|m| b.clone_with_move(m)).collect();
                        if !succ.is_empty() && succ.len() <= 40 && succ.iter().all(|q| qsize(&mut st, q, 1500).is_some()) {
                            let a = out.run(&mut st, "eng.go 1");
                            let f: Vec<&str> = a.split_whitespace().collect();
                            if !f.is_empty() { out.run(&mut st, &format!("eng.judge1 {}", f[0])); }
                            let mut deeper0: u64 = out.run(&mut st, "eng.deeper").parse().unwrap_or(0);
                            out.count("depth1_searches_with_history_judged");
                            if any_third { out.count("depth1_searches_with_a_third_occurrence_successor"); }
                            // deeper searches on the same engine: model tie (node counts) with the history in place
                            for d in 2..=5u8 {
                                if crate::csearch::nodes_capped(&b, d, if d <= 3 { 20000 } else { 12000 }) < (if d <= 3 { 20000 } else { 12000 }) {
                                    let a = out.run(&mut st, &format!("eng.go {}", d));
                                    out.count("deeper_searches_with_history_tied"); if d >= 4 { out.count("depth_4_5_searches_with_history_tied"); }
                                    // ... and judged against minimax-with-draws when no deeper record was reused (theorem C09Search)
                                    let deeper1: u64 = out.run(&mut st, "eng.deeper").parse().unwrap_or(0);
                                    let f: Vec<&str> = a.split_whitespace().collect();
                                    if !f.is_empty() && d <= 4 {
                                        let delta = deeper1.saturating_sub(deeper0);
                                        out.run(&mut st, &format!("eng.judged {} {} {}", d, f[0], delta));
                                        out.count(if delta == 0 { "deeper_searches_with_history_judged" } else { "deeper_searches_with_history_not_judged_deeper_record_reused" });
                                    }
                                    deeper0 = deeper1;
                                }
                            }
                        } else { out.count("history_search_skipped_large_quiescence"); }
                    }
                }
            }
            _ => panic!("unknown generator"),
        }
    }
}

/// (position whose fresh depth-d answer is a castle or an en-passant capture, its twin without that right / ep square, d)
fn twin_case(g: &Gen, rng: &mut Rng) -> Option<(Board, Board, u8)> {
    use crate::pieces::{Color, Piece};
    for _ in 0..120 {
        let white = rng.chance(1, 2);
        let mut occ = [None::<(Color, Piece)>; 64];
        let (me, opp) = if white { (Color::White, Color::Black) } else { (Color::Black, Color::White) };
        let base = if white { 0usize } else { 56 };
        let ep_family = rng.chance(1, 3);
        let mut mask = 0u8;
        let mut ep = None;
        if !ep_family {
            occ[base + 4] = Some((me, Piece::King));
            let both = rng.chance(1, 2);
            let qs = both || rng.chance(1, 2);
            if qs { occ[base] = Some((me, Piece::Rook)); mask |= if white { 2 } else { 8 }; }
            if both || !qs { occ[base + 7] = Some((me, Piece::Rook)); mask |= if white { 1 } else { 4 }; }
            // the enemy king on the d/f files far away makes castling with check frequent
            let okr = if white { 4 + rng.below(4) as usize } else { rng.below(4) as usize };
            let anyf = rng.below(8) as usize; let okf = *rng.pick(&[3usize, 5, 2, 6, 3, 5, anyf]);
            if occ[okr * 8 + okf].is_none() { occ[okr * 8 + okf] = Some((opp, Piece::King)); } else { continue; }
        } else {
            // my pawn on its 5th rank next to an enemy pawn that has just double-pushed
            let r5 = if white { 4usize } else { 3 };
            let f = rng.below(8) as usize;
            let ef = if f == 0 { 1 } else if f == 7 { 6 } else if rng.chance(1, 2) { f - 1 } else { f + 1 };
            occ[r5 * 8 + f] = Some((me, Piece::Pawn));
            occ[r5 * 8 + ef] = Some((opp, Piece::Pawn));
            ep = Some((if white { 5 * 8 + ef } else { 2 * 8 + ef }) as u8);
            let k1 = rng.below(64) as usize; let k2 = rng.below(64) as usize;
            if occ[k1].is_some() || occ[k2].is_some() || k1 == k2 { continue; }
            if ((k1 / 8) as i32 - (k2 / 8) as i32).abs().max(((k1 % 8) as i32 - (k2 % 8) as i32).abs()) < 2 { continue; }
            occ[k1] = Some((me, Piece::King)); occ[k2] = Some((opp, Piece::King));
        }
        for _ in 0..rng.below(4) {
            let sq = 8 + rng.below(48) as usize;
            if occ[sq].is_none() { occ[sq] = Some((if rng.chance(1, 2) { me } else { opp }, *rng.pick(&[Piece::Pawn, Piece::Pawn, Piece::Knight, Piece::Bishop]))); }
        }
        let mut pcs = [0u64; 6];
        let (mut wbb, mut bbb) = (0u64, 0u64);
        for sq in 0..64 { if let Some((c, p)) = occ[sq] { pcs[p.index()] |= 1 << sq; if c == Color::White { wbb |= 1 << sq } else { bbb |= 1 << sq } } }
        let b = match board_from_raw(pcs, wbb, bbb, me, mask, ep, 0, 1) { Some(b) => b, None => continue };
        if !crate::refchess::valid(&b) { continue; }
        let ms = g.mg.generate_moves(&b);
        if !ms.iter().any(|m| m.move_type == MoveType::Castle || m.move_type == MoveType::EnPassant) { continue; }
        let d = 2 + rng.below(2) as u8;
        if crate::csearch::nodes_capped(&b, d, 30000) >= 30000 { continue; }
        let mut s = crate::search::Searcher::new();
        let (_sc, mv) = s.find_best_move(&b, d, None);
        let mv = match mv { Some(m) => m, None => continue };
        let twin = match mv.move_type {
            MoveType::Castle => {
                let bit = if mv.to % 8 == 6 { if white { 1 } else { 4 } } else if white { 2 } else { 8 };
                board_from_raw(pcs, wbb, bbb, me, mask & !bit, ep, 0, 1)
            }
            MoveType::EnPassant => board_from_raw(pcs, wbb, bbb, me, mask, None, 0, 1),
            _ => None,
        };
        if let Some(t) = twin { if crate::refchess::valid(&t) { return Some((b, t, d)); } }
    }
    None
}

/// kings and rooks at home with all rights (plus a few men); 2-8 plies preferring captures on the corner squares, rook and
/// king moves — the sessions in which castling rights are lost in every possible way
fn castling_session(g: &Gen, rng: &mut Rng) -> Option<(Board, Vec<Move>)> {
    use crate::pieces::{Color, Piece};
    let mut occ = [None::<(Color, Piece)>; 64];
    occ[4] = Some((Color::White, Piece::King)); occ[0] = Some((Color::White, Piece::Rook)); occ[7] = Some((Color::White, Piece::Rook));
    occ[60] = Some((Color::Black, Piece::King)); occ[56] = Some((Color::Black, Piece::Rook)); occ[63] = Some((Color::Black, Piece::Rook));
    for _ in 0..rng.below(5) {
        let sq = 8 + rng.below(48) as usize;
        if occ[sq].is_none() { occ[sq] = Some((if rng.chance(1, 2) { Color::White } else { Color::Black }, *rng.pick(&[Piece::Bishop, Piece::Knight, Piece::Pawn, Piece::Bishop, Piece::Queen]))); }
    }
    let mut pcs = [0u64; 6];
    let (mut w, mut bl) = (0u64, 0u64);
    for sq in 0..64 { if let Some((c, p)) = occ[sq] { pcs[p.index()] |= 1 << sq; if c == Color::White { w |= 1 << sq } else { bl |= 1 << sq } } }
    let side = if rng.chance(1, 2) { Color::White } else { Color::Black };
    let start = board_from_raw(pcs, w, bl, side, 15, None, 0, 1)?;
    if !crate::refchess::valid(&start) { return None; }
    let mut b = start;
    let mut ms: Vec<Move> = Vec::new();
    for _ in 0..(2 + rng.below(7)) {
        let all = g.mg.generate_moves(&b);
        if all.is_empty() { break; }
        let corner: Vec<&Move> = all.iter().filter(|x| [0u8, 7, 56, 63].contains(&x.to) && x.move_type != MoveType::Quiet).collect();
        let heavy: Vec<&Move> = all.iter().filter(|x| x.piece_type == Piece::Rook || x.piece_type == Piece::King).collect();
        let m = if !corner.is_empty() && rng.chance(3, 4) { **rng.pick(&corner) } else if !heavy.is_empty() && rng.chance(1, 2) { **rng.pick(&heavy) } else { *rng.pick(&all) };
        b.make_move(&m); ms.push(m);
    }
    Some((start, ms))
}

fn find_move(g: &Gen, b: &Board, from: u8, to: u8) -> Option<Move> {
    g.mg.generate_moves(b).into_iter().find(|x| x.from == from && x.to == to && x.move_type == MoveType::Quiet)
}

/// a, n, a', n'  (the start position P occurs a second time), then k, n, (a, n', a', n) x r with r >= 25, then k':
/// now the opponent's n' would bring P about a THIRD time, its two earlier occurrences lying 4r + 3 > 100 plies back.
/// a / k are quiet moves of two different non-pawn pieces of the side to move, n one of the opponent; x' undoes x.
fn long_repetition_game(g: &Gen, rng: &mut Rng, start: &Board) -> Option<Vec<Move>> {
    let quiet = |b: &Board| -> Vec<Move> { g.mg.generate_moves(b).into_iter().filter(|x| x.move_type == MoveType::Quiet && x.piece_type != crate::pieces::Piece::Pawn).collect() };
    for _ in 0..20 {
        let qa = quiet(start);
        if qa.len() < 2 { return None; }
        let a = *rng.pick(&qa);
        let ks: Vec<Move> = qa.iter().filter(|x| x.from != a.from && x.to != a.to && x.to != a.from && x.from != a.to).cloned().collect();
        if ks.is_empty() { continue; }
        let k = *rng.pick(&ks);
        let mut b = *start;
        let mut ms: Vec<Move> = Vec::new();
        let mut ok = true;
        let mut step = |b: &mut Board, ms: &mut Vec<Move>, from: u8, to: u8| -> bool {
            match find_move(g, b, from, to) { Some(m) => { b.make_move(&m); ms.push(m); true } None => false }
        };
        if !step(&mut b, &mut ms, a.from, a.to) { continue; }
        let qn = quiet(&b);
        if qn.is_empty() { continue; }
        let n = *rng.pick(&qn);
        let r = 25 + rng.below(6) as usize;
        let mut seq: Vec<(u8, u8)> = vec![(n.from, n.to), (a.to, a.from), (n.to, n.from), (k.from, k.to), (n.from, n.to)];
        for _ in 0..r { seq.push((a.from, a.to)); seq.push((n.to, n.from)); seq.push((a.to, a.from)); seq.push((n.from, n.to)); }
        seq.push((k.to, k.from));
        for (f, t) in seq { if !step(&mut b, &mut ms, f, t) { ok = false; break; } }
        if !ok { continue; }
        // the announced third occurrence really is one: n' is available and leads to the start placement
        match find_move(g, &b, n.to, n.from) {
            Some(m) => { let q = b.clone_with_move(&m); if q.bb_all() == start.bb_all() && q.active_color == start.active_color { return Some(ms); } }
            None => {}
        }
    }
    None
}

/// a pawn one step from promotion next to a cornered king: mates by promotion (to queen AND rook, sometimes only by
/// under-promotion), with the other promotions on the same squares as competing moves
fn promo_mate_position(g: &Gen, rng: &mut Rng) -> Option<Board> {
    use crate::pieces::{Color, Piece};
    let white = rng.chance(1, 2);
    let mut occ = [None::<(Color, Piece)>; 64];
    let (me, opp) = if white { (Color::White, Color::Black) } else { (Color::Black, Color::White) };
    let back = if white { 7usize } else { 0 };        // promotion rank
    let seventh = if white { 6usize } else { 1 };
    let kf = *rng.pick(&[0usize, 1, 6, 7, 7, 0, 3, 4]);
    occ[back * 8 + kf] = Some((opp, Piece::King));
    let pf = rng.below(8) as usize;
    occ[seventh * 8 + pf] = Some((me, Piece::Pawn));
    // my king two ranks away, somewhere near
    let mk = (if white { 5usize } else { 2 }) * 8 + ((kf as i32 + rng.below(3) as i32 - 1).clamp(0, 7) as usize);
    if occ[mk].is_none() { occ[mk] = Some((me, Piece::King)); } else { return None; }
    for _ in 0..rng.below(4) {
        let sq = rng.below(64) as usize;
        if occ[sq].is_none() {
            let c = if rng.chance(1, 2) { me } else { opp };
            let p = *rng.pick(&[Piece::Pawn, Piece::Pawn, Piece::Bishop, Piece::Knight, Piece::Rook]);
            if p == Piece::Pawn && (sq / 8 == 0 || sq / 8 == 7) { continue; }
            occ[sq] = Some((c, p));
        }
    }
    let mut pcs = [0u64; 6];
    let (mut wbb, mut bbb) = (0u64, 0u64);
    for sq in 0..64 { if let Some((c, p)) = occ[sq] { pcs[p.index()] |= 1 << sq; if c == Color::White { wbb |= 1 << sq } else { bbb |= 1 << sq } } }
    let b = board_from_raw(pcs, wbb, bbb, me, 0, None, 0, 1)?;
    if crate::refchess::valid(&b) { Some(b) } else { None }
}

/// kings and MINOR pieces only (bishops, knights, at most one pawn), the defending king in a corner hemmed in by its own
/// men: mates by bishop / knight with almost no material on the board (where "insufficient material" shortcuts would bite)
fn minor_corner(g: &Gen, rng: &mut Rng) -> Option<Board> {
    use crate::pieces::{Color, Piece};
    let mut occ = [None::<(Color, Piece)>; 64];
    let (att, def) = if rng.chance(1, 2) { (Color::White, Color::Black) } else { (Color::Black, Color::White) };
    let corner = *rng.pick(&[0usize, 7, 56, 63]);
    let (cr, cf) = ((corner / 8) as i32, (corner % 8) as i32);
    let inward = |d: i32, c: i32| if c == 0 { d } else { -d };
    occ[corner] = Some((def, Piece::King));
    // the attacker's king a knight's move or two squares away
    let (ar, af) = *rng.pick(&[(1, 2), (2, 1), (2, 0), (0, 2), (2, 2)]);
    let ak = ((cr + inward(ar, cr)) * 8 + cf + inward(af, cf)) as usize;
    occ[ak] = Some((att, Piece::King));
    // the defender's own men next to its king
    for (dr, df) in [(0, 1), (1, 0), (1, 1)] {
        if rng.chance(2, 5) {
            let s = ((cr + inward(dr, cr)) * 8 + cf + inward(df, cf)) as usize;
            let pr = s / 8;
            let p = *rng.pick(&[Piece::Bishop, Piece::Bishop, Piece::Knight, Piece::Pawn]);
            if p == Piece::Pawn && (pr == 0 || pr == 7) { continue; }
            if occ[s].is_none() { occ[s] = Some((def, p)); }
        }
    }
    for _ in 0..(1 + rng.below(3)) {
        let s = rng.below(64) as usize;
        if occ[s].is_none() { occ[s] = Some((att, *rng.pick(&[Piece::Bishop, Piece::Bishop, Piece::Knight]))); }
    }
    if rng.chance(1, 3) { let s = rng.below(64) as usize; if occ[s].is_none() { occ[s] = Some((def, *rng.pick(&[Piece::Bishop, Piece::Knight]))); } }
    let mut pcs = [0u64; 6];
    let (mut white, mut black) = (0u64, 0u64);
    for s in 0..64 { if let Some((c, p)) = occ[s] { pcs[p.index()] |= 1 << s; if c == Color::White { white |= 1 << s } else { black |= 1 << s } } }
    // attacker to move (mate in one) or defender to move (a capture / move that allows mate next to safe ones)
    let side = if rng.chance(2, 3) { att } else { def };
    let b = board_from_raw(pcs, white, black, side, 0, None, 0, 1)?;
    if crate::refchess::valid(&b) { Some(b) } else { None }
}

/// a battery aimed at a cornered king: slider, ONE own man in between, king — moving that man away is a quiet move that gives
/// check only by discovery; an enemy heavy piece hangs somewhere, so that a capture is ordered first and raises alpha
fn discovered_battery(g: &Gen, rng: &mut Rng) -> Option<Board> {
    use crate::pieces::{Color, Piece};
    let mut occ = [None::<(Color, Piece)>; 64];
    let (att, def) = if rng.chance(1, 2) { (Color::White, Color::Black) } else { (Color::Black, Color::White) };
    let corner = *rng.pick(&[0usize, 7, 56, 63]);
    let (cr, cf) = ((corner / 8) as i32, (corner % 8) as i32);
    let inward = |d: i32, c: i32| if c == 0 { d } else { -d };
    occ[corner] = Some((def, Piece::King));
    // the line: along the file, the rank or the long diagonal out of the corner
    let (dr, df) = *rng.pick(&[(1, 0), (0, 1), (1, 1)]);
    let (dr, df) = (inward(dr, cr), inward(df, cf));
    let i = 2 + rng.below(3) as i32;
    let j = i + 1 + rng.below(3) as i32;
    let sq = |t: i32| ((cr + t * dr) * 8 + cf + t * df) as usize;
    if !(0..8).contains(&(cr + j * dr)) || !(0..8).contains(&(cf + j * df)) { return None; }
    let slider = if dr != 0 && df != 0 { *rng.pick(&[Piece::Bishop, Piece::Queen]) } else { *rng.pick(&[Piece::Rook, Piece::Queen]) };
    occ[sq(j)] = Some((att, slider));
    let blocker = *rng.pick(&[Piece::Knight, Piece::Knight, Piece::Bishop, Piece::Rook]);
    if (blocker == Piece::Bishop && dr != 0 && df != 0) || (blocker == Piece::Rook && (dr == 0 || df == 0)) { return None; }
    occ[sq(i)] = Some((att, blocker));
    // the defender's own men hem the king in
    for (r, f) in [(0, 1), (1, 0), (1, 1)] {
        let s = ((cr + inward(r, cr)) * 8 + cf + inward(f, cf)) as usize;
        if s == sq(1) { continue; }
        if occ[s].is_none() && rng.chance(2, 3) { let pr = s / 8; let p = if pr == 0 || pr == 7 { Piece::Knight } else { *rng.pick(&[Piece::Pawn, Piece::Pawn, Piece::Bishop]) }; occ[s] = Some((def, p)); }
    }
    // attacker's king and a hanging enemy piece
    for _ in 0..40 { let s = rng.below(64) as usize; if occ[s].is_none() { occ[s] = Some((att, Piece::King)); break; } }
    for _ in 0..(1 + rng.below(2)) { let s = rng.below(64) as usize; if occ[s].is_none() && (1..j).all(|t| s != sq(t)) { occ[s] = Some((def, *rng.pick(&[Piece::Queen, Piece::Rook, Piece::Queen]))); } }
    if !occ.iter().any(|x| *x == Some((att, Piece::King))) { return None; }
    let mut pcs = [0u64; 6];
    let (mut white, mut black) = (0u64, 0u64);
    for s in 0..64 { if let Some((c, p)) = occ[s] { pcs[p.index()] |= 1 << s; if c == Color::White { white |= 1 << s } else { black |= 1 << s } } }
    let side = if rng.chance(3, 4) { att } else { def };
    let b = board_from_raw(pcs, white, black, side, 0, None, 0, 1)?;
    if crate::refchess::valid(&b) { Some(b) } else { None }
}

fn heavy_small(g: &Gen, rng: &mut Rng) -> Option<Board> {
    // kings + queens/rooks + a few pawns: mating patterns are frequent
    use crate::pieces::{Color, Piece};
    let mut occ = [None::<(Color, Piece)>; 64];
    let wk = rng.below(64) as usize;
    let anysq = rng.below(64) as usize;
    let bk = *rng.pick(&[0usize, 7, 56, 63, 3, 4, 59, 60, 24, 31, 32, 39, anysq]);
    if wk == bk { return None; }
    occ[wk] = Some((Color::White, Piece::King));
    occ[bk] = Some((Color::Black, Piece::King));
    for _ in 0..(1 + rng.below(4)) {
        let s = rng.below(64) as usize;
        if occ[s].is_none() { occ[s] = Some((if rng.chance(2, 3) { Color::White } else { Color::Black }, *rng.pick(&[Piece::Queen, Piece::Rook, Piece::Rook, Piece::Bishop, Piece::Knight]))); }
    }
    for _ in 0..rng.below(5) {
        let s = 8 + rng.below(48) as usize;
        if occ[s].is_none() { occ[s] = Some((if rng.chance(1, 2) { Color::White } else { Color::Black }, Piece::Pawn)); }
    }
    let mut pcs = [0u64; 6];
    let (mut white, mut black) = (0u64, 0u64);
    for s in 0..64 { if let Some((c, p)) = occ[s] { pcs[p.index()] |= 1 << s; if c == Color::White { white |= 1 << s } else { black |= 1 << s } } }
    let side = if rng.chance(1, 2) { Color::White } else { Color::Black };
    let b = board_from_raw(pcs, white, black, side, 0, None, 0, 1)?;
    if crate::refchess::valid(&b) { Some(b) } else { None }
}
