// C02: make_move against the rules: every legal move of sampled positions, and long random games with the
// board compared after EVERY ply; a malformed stream for totality of make_move (model tie only).
use crate::common::{Out, Rng};
use crate::moves::{Move, MoveType};
use crate::ops::ImplState;
use crate::posgen::{self, Gen};
use crate::text::*;

pub fn run(rng: &mut Rng, n: usize, out: &mut Out) {
    let mut st = ImplState::new();
    let g = Gen::new();
    let mut done = 0usize;
    // (a) every legal move of the corpus positions
    for fen in posgen::CORPUS {
        let b = crate::board::Board::new(fen);
        if !crate::refchess::valid(&b) { continue; }
        for m in g.mg.generate_moves(&b) {
            let op = format!("play {} {}", board_text(&b), mv_text(&m));
            let a = out.run(&mut st, &op);
            if done < 2 { out.sample(format!("{} => {}", op, a)); }
            out.count(&format!("played_kind_{}", kind_name(m.move_type)));
            out.nontrivial(&op);
            done += 1;
        }
    }
    // (b) random games, every ply compared
    while done < n {
        let mut b = if rng.chance(1, 3) { g.valid_position(rng, out) } else { crate::board::Board::new(*rng.pick(posgen::CORPUS)) };
        if !crate::refchess::valid(&b) { continue; }
        out.op("case game", "ok");
        let long = rng.chance(1, 10);
        let plies = 1 + rng.below(if long { 600 } else { 80 });
        for _ in 0..plies {
            let ms = g.mg.generate_moves(&b);
            if ms.is_empty() { break; }
            let special: Vec<&Move> = ms.iter().filter(|m| m.move_type != MoveType::Quiet).collect();
            let m = if !special.is_empty() && rng.chance(2, 5) { **rng.pick(&special) } else { *rng.pick(&ms) };
            let op = format!("play {} {}", board_text(&b), mv_text(&m));
            out.run(&mut st, &op);
            out.count(&format!("played_kind_{}", kind_name(m.move_type)));
            if m.move_type == MoveType::Promotion { out.count(&format!("promoted_to_{}", piece_name(m.piece_type))); }
            if (m.move_type == MoveType::Capture || m.move_type == MoveType::Promotion) && [0u8, 7, 56, 63].contains(&m.to) { out.count("capture_on_corner"); }
            out.nontrivial(&op);
            b.make_move(&m);
            done += 1;
        }
    }
    // (c) malformed stream: arbitrary boards x arbitrary moves; the implementation may panic, the model must say so too
    for _ in 0..(n / 10) {
        let b = g.malformed(rng);
        let m = Move::new(rng.below(64) as u8, rng.below(64) as u8, *rng.pick(&PIECES), *rng.pick(&KINDS));
        // keep square arithmetic inside the board so that the u8/i8 wrap-around (not modelled) is not exercised
        if m.move_type == MoveType::EnPassant && (m.to < 8 || m.to >= 56) { continue; }
        if m.move_type == MoveType::Quiet && m.piece_type == crate::pieces::Piece::Pawn { continue; }
        let op = format!("play {} {}", board_text(&b), mv_text(&m));
        out.run(&mut st, &op);
        out.count("malformed_play");
    }
}
