// The operation interpreter of the IMPLEMENTATION side: one text operation in, the real engine's
// canonicalised answer out.  Generators build operations and call `apply`; `harness replay` feeds
// recorded operations through the same function.
use crate::text::*;
use crate::transposition::TranspositionTable;

pub struct ImplState {
    pub tt: TranspositionTable,
}

impl ImplState {
    pub fn new() -> Self {
        ImplState { tt: TranspositionTable::new() }
    }

    pub fn apply(&mut self, line: &str) -> String {
        let t: Vec<&str> = line.split_whitespace().collect();
        if t.is_empty() { return "bad-op".into(); }
        match t[0] {
            "case" => "ok".into(),
            "tt.new" => { self.tt = TranspositionTable::new(); "ok".into() }
            "tt.store" if t.len() == 6 => {
                let (k, ev, mv, d, b) = (t[1].parse::<u64>(), t[2].parse::<i32>(), parse_opt_mv(t[3]), t[4].parse::<u8>(), parse_bounds(t[5]));
                match (k, ev, mv, d, b) {
                    (Ok(k), Ok(ev), Some(mv), Ok(d), Some(b)) => { self.tt.store(k, ev, mv, d, b); "ok".into() }
                    _ => "bad-op".into(),
                }
            }
            "tt.get" if t.len() == 2 => match t[1].parse::<u64>() {
                Ok(k) => entry_text(self.tt.retrieve(k)),
                _ => "bad-op".into(),
            },
            _ => "bad-op".into(),
        }
    }
}
