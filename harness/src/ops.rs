// The operation interpreter of the IMPLEMENTATION side: one text operation in, the real engine's
// canonicalised answer out.  Generators build operations and call `apply`; `harness replay` feeds
// recorded operations through the same function.
use crate::board::Board;
use crate::eval::Evaluator;
use crate::pieces::{Color, Piece};
use crate::text::*;
use crate::transposition::TranspositionTable;
use crate::uci::Flounder;
use crate::zobrist::ZobristTable;

pub struct ImplState {
    pub searcher: crate::search::Searcher,
    pub mg: crate::move_gen::MoveGenerator,
    pub tt: TranspositionTable,
    pub evaluator: Evaluator,
    pub zobrist: ZobristTable,
    pub uci: Flounder,
}

/// the side-flipped board (only the side to move differs)
pub fn flip_side(b: &Board) -> Board { let mut c = *b; c.change_color(); c }

/// the mirrored board: ranks reversed (square ^ 56), colours exchanged, side exchanged, rights exchanged
pub fn mirror(b: &Board) -> Board {
    let mut pcs = [0u64; 6];
    for (i, p) in PIECES.iter().enumerate() { pcs[i] = b.bb_piece(*p).swap_bytes(); }
    let white = b.bb_color(Color::Black).swap_bytes();
    let black = b.bb_color(Color::White).swap_bytes();
    let (wk, wq) = b.castling_ability(Color::White);
    let (bk, bq) = b.castling_ability(Color::Black);
    let mask = (bk as u8) | (bq as u8) << 1 | (wk as u8) << 2 | (wq as u8) << 3;
    board_from_raw(pcs, white, black, !b.active_color, mask, b.en_passant_target.map(|s| s ^ 56), b.halfmove_clock as u32, b.fullmove_counter as u32).unwrap()
}

pub fn zobrist_keys_text(z: &ZobristTable) -> String {
    let (pk, w, ck, ek) = z.verif_keys();
    let mut v: Vec<String> = Vec::with_capacity(837);
    for c in 0..2 { for p in 0..6 { for s in 0..64 { v.push(pk[c][p][s].to_string()); } } }
    v.push(w.to_string());
    for c in 0..2 { for s in 0..2 { v.push(ck[c][s].to_string()); } }
    for s in 0..64 { v.push(ek[s].to_string()); }
    v.join(" ")
}

pub fn keys_from_tokens(t: &[&str]) -> Option<ZobristTable> {
    let v: Vec<u64> = t.iter().filter_map(|x| x.parse().ok()).collect();
    if v.len() != 837 { return None; }
    let mut pk = [[[0u64; 64]; 6]; 2];
    let mut i = 0;
    for c in 0..2 { for p in 0..6 { for sq in 0..64 { pk[c][p][sq] = v[i]; i += 1; } } }
    let w = v[i]; i += 1;
    let mut ck = [[0u64; 2]; 2];
    for c in 0..2 { for sd in 0..2 { ck[c][sd] = v[i]; i += 1; } }
    let mut ek = [0u64; 64];
    for sq in 0..64 { ek[sq] = v[i]; i += 1; }
    Some(ZobristTable::verif_from_keys(pk, w, ck, ek))
}

/// order-independent digest of the transposition table (same formula as Driver/Main.lean `ttDigest`)
pub fn tt_digest(entries: &[(u64, crate::transposition::Entry)]) -> String {
    let mut sum: u64 = 0;
    for (k, e) in entries {
        let mv = match e.best_move {
            None => 0u64,
            Some(m) => (m.from as u64) * 64 + (m.to as u64) + 4096 * (m.piece_type.index() as u64)
                + 32768 * (match m.move_type { crate::moves::MoveType::Quiet => 0, crate::moves::MoveType::Capture => 1, crate::moves::MoveType::EnPassant => 2, crate::moves::MoveType::Castle => 3, crate::moves::MoveType::Promotion => 4 }) + 1,
        };
        let b = match e.bounds { crate::transposition::Bounds::Exact => 1u64, crate::transposition::Bounds::Lower => 2, crate::transposition::Bounds::Upper => 3 };
        let ev = (e.eval as i64 + 4294967296i64) as u64;
        let term = k.wrapping_mul(31).wrapping_add(e.hash_key.wrapping_mul(17)).wrapping_add(ev.wrapping_mul(1000003))
            .wrapping_add(mv.wrapping_mul(7919)).wrapping_add((e.depth as u64).wrapping_mul(104729)).wrapping_add(b.wrapping_mul(1299709));
        sum = sum.wrapping_add(term);
    }
    format!("{} {}", entries.len(), sum)
}

pub fn clamp_class(v: i32) -> i32 { if v >= 32767 { 32767 } else if v <= -32767 { -32767 } else { v } }

impl ImplState {
    pub fn new() -> Self {
        ImplState { searcher: crate::search::Searcher::new(), mg: crate::move_gen::MoveGenerator::new(), tt: TranspositionTable::new(), evaluator: Evaluator::new(), zobrist: ZobristTable::new(), uci: Flounder::new() }
    }

    /// completed search of `b` to depth `d` on a FRESH searcher that uses the current keys
    pub fn fresh_search(&mut self, b: &Board, d: u8) -> (i32, Option<crate::moves::Move>, u64) {
        let r = self.fresh_search_nodes(b, d);
        (r.0, r.1, r.2)
    }

    /// ... and the number of nodes it took (the model must take exactly as many)
    pub fn fresh_search_nodes(&mut self, b: &Board, d: u8) -> (i32, Option<crate::moves::Move>, u64, u64) {
        let (pk, w, ck, ek) = self.searcher.verif_zobrist().verif_keys();
        let mut s = crate::search::Searcher::new();
        s.verif_set_zobrist(ZobristTable::verif_from_keys(pk, w, ck, ek));
        let (score, mv) = s.find_best_move(b, d, None);
        (score, mv, s.verif_deeper_hits.get(), s.verif_timer().nodes())
    }

    pub fn apply(&mut self, line: &str) -> String {
        let t: Vec<&str> = line.split_whitespace().collect();
        if t.is_empty() { return "bad-op".into(); }
        match t[0] {
            "case" => "ok".into(),
            // impl.viafen on|off: from here on the implementation builds valid boards through its own FEN reader
            "impl.viafen" if t.len() == 2 => { VIA_FEN.with(|v| v.set(t[1] == "on")); "ok".into() }
            // ------------------------------------------------------------ C15
            "tt.new" => { self.tt = TranspositionTable::new(); "ok".into() }
            "tt.store" if t.len() == 6 => {
                let (k, ev, mv, d, b) = (t[1].parse::<u64>(), t[2].parse::<i32>(), parse_opt_mv(t[3]), t[4].parse::<u8>(), parse_bounds(t[5]));
                match (k, ev, mv, d, b) {
                    (Ok(k), Ok(ev), Some(mv), Ok(d), Some(b)) => { self.tt.store(k, ev, mv, d, b); "ok".into() }
                    _ => "bad-op".into(),
                }
            }
            // tt.fill <first key> <count> <depth>: <count> records under consecutive keys (a big table in one operation)
            "tt.fill" if t.len() == 4 => match (t[1].parse::<u64>(), t[2].parse::<u64>(), t[3].parse::<u8>()) {
                (Ok(k0), Ok(n), Ok(d)) => {
                    for i in 0..n { self.tt.store(k0.wrapping_add(i), (i % 1000) as i32, None, d, crate::transposition::Bounds::Exact); }
                    "ok".into()
                }
                _ => "bad-op".into(),
            },
            "tt.get" if t.len() == 2 => match t[1].parse::<u64>() {
                Ok(k) => entry_text(self.tt.retrieve(k)),
                _ => "bad-op".into(),
            },
            // ------------------------------------------------------------ C10
            "c10.slide" if t.len() == 4 => match (parse_piece(t[1]), t[2].parse::<u8>(), t[3].parse::<u64>()) {
                (Some(p), Ok(sq), Ok(occ)) if sq < 64 => self.mg.lookup.sliding_moves(sq, occ, p).to_string(),
                _ => "bad-op".into(),
            },
            "c10.leaper" if t.len() == 2 => match t[1].parse::<u8>() {
                Ok(sq) if sq < 64 => format!("{} {}", self.mg.lookup.non_sliding_moves(sq, Piece::Knight), self.mg.lookup.non_sliding_moves(sq, Piece::King)),
                _ => "bad-op".into(),
            },
            "c10.between" if t.len() == 3 => match (t[1].parse::<u8>(), t[2].parse::<u8>()) {
                (Ok(a), Ok(b)) if a < 64 && b < 64 => format!("{} {}", self.mg.lookup.between(a, b, true), self.mg.lookup.between(a, b, false)),
                _ => "bad-op".into(),
            },
            "c10.mask" if t.len() == 3 => match (parse_piece(t[1]), t[2].parse::<usize>()) {
                (Some(p), Ok(sq)) if sq < 64 => {
                    let m = &self.mg.lookup.magic_table;
                    if p == Piece::Bishop { format!("{} {} {}", m.bishop_attack_masks[sq], m.bishop_magics[sq], crate::magic::verif_relevant_bits(true, sq)) }
                    else { format!("{} {} {}", m.rook_attack_masks[sq], m.rook_magics[sq], crate::magic::verif_relevant_bits(false, sq)) }
                }
                _ => "bad-op".into(),
            },
            // ------------------------------------------------------------ C01 / C02 / C17
            "gen" if t.len() == 2 => match parse_board(t[1]) {
                Some(b) => self.mg.generate_moves(&b).iter().map(mv_text).collect::<Vec<_>>().join(" "),
                None => "bad-op".into(),
            },
            "legal" if t.len() == 2 => match parse_board(t[1]) {
                Some(b) => sorted_moves(&self.mg.generate_moves(&b)),
                None => "bad-op".into(),
            },
            "incheck" if t.len() == 2 => match parse_board(t[1]) {
                Some(b) => self.mg.is_in_check(&b).to_string(),
                None => "bad-op".into(),
            },
            "qmoves" if t.len() == 2 => match parse_board(t[1]) {
                Some(b) => sorted_moves(&self.mg.generate_quiescence_moves(&b)),
                None => "bad-op".into(),
            },
            // the move list search_until_quiet itself selects (observed inside the search through a hook)
            "qset" if t.len() == 2 => match parse_board(t[1]) {
                Some(b) => sorted_moves(&self.uci.verif_searcher().verif_quiescence_move_set(&b)),
                None => "bad-op".into(),
            },
            // qstress <board> <depth> <node budget>: a search on the SAME searcher whose quiescence selection `qset` observes,
            // cut off after <node budget> nodes (typically deep inside quiescence); no answer is compared
            "qstress" if t.len() == 4 => match (parse_board(t[1]), t[2].parse::<u8>(), t[3].parse::<u64>()) {
                (Some(b), Ok(d), Ok(n)) => {
                    let s = self.uci.verif_searcher();
                    s.verif_set_node_limit(Some(n));
                    s.find_best_move(&b, d, Some(std::time::Duration::from_secs(86400)));
                    s.verif_set_node_limit(None);
                    "ok".into()
                }
                _ => "bad-op".into(),
            },
            "play" if t.len() == 3 => match (parse_board(t[1]), parse_mv(t[2])) {
                (Some(b), Some(m)) => board_text(&b.clone_with_move(&m)),
                _ => "bad-op".into(),
            },
            "valid" if t.len() == 2 => match parse_board(t[1]) {
                Some(b) => crate::refchess::valid(&b).to_string(),
                None => "bad-op".into(),
            },
            // ------------------------------------------------------------ C14
            // one shared Evaluator for the whole run: earlier calls must not influence later ones
            "eval" if t.len() == 2 => match parse_board(t[1]) {
                Some(b) => self.evaluator.evaluate(&b).to_string(),
                None => "bad-op".into(),
            },
            "eval.judge" if t.len() == 3 => "ok".into(),
            // score, score of the side-flipped board, score of the mirrored board
            "eval.rel" if t.len() == 2 => match parse_board(t[1]) {
                Some(b) => {
                    let e = self.evaluator.evaluate(&b);
                    let f = self.evaluator.evaluate(&flip_side(&b));
                    let m = self.evaluator.evaluate(&mirror(&b));
                    format!("{} {} {}", e, f, m)
                }
                None => "bad-op".into(),
            },
            // ------------------------------------------------------------ C11
            // install the given 837 keys (the generator obtained them from a REAL ZobristTable::new() draw)
            "zob.keys" if t.len() == 838 => {
                let v: Vec<u64> = t[1..].iter().filter_map(|x| x.parse().ok()).collect();
                if v.len() != 837 { return "bad-op".into(); }
                let mut pk = [[[0u64; 64]; 6]; 2];
                let mut i = 0;
                for c in 0..2 { for p in 0..6 { for sq in 0..64 { pk[c][p][sq] = v[i]; i += 1; } } }
                let w = v[i]; i += 1;
                let mut ck = [[0u64; 2]; 2];
                for c in 0..2 { for sd in 0..2 { ck[c][sd] = v[i]; i += 1; } }
                let mut ek = [0u64; 64];
                for sq in 0..64 { ek[sq] = v[i]; i += 1; }
                self.zobrist = ZobristTable::verif_from_keys(pk, w, ck, ek);
                "ok".into()
            }
            "zob.same" | "zob.diff" if t.len() == 3 => match (parse_board(t[1]), parse_board(t[2])) {
                (Some(a), Some(b)) => if self.zobrist.hash(&a) == self.zobrist.hash(&b) { "same".into() } else { "differ".into() },
                _ => "bad-op".into(),
            },
            "zob.hash" if t.len() == 2 => match parse_board(t[1]) {
                Some(b) => self.zobrist.hash(&b).to_string(),
                None => "bad-op".into(),
            },
            // ------------------------------------------------------------ search
            "s.new" if t.len() == 838 => match keys_from_tokens(&t[1..]) {
                Some(z) => { self.searcher = crate::search::Searcher::new(); self.searcher.verif_set_zobrist(z); "ok".into() }
                None => "bad-op".into(),
            },
            // the keys the searcher under test actually DREW (ZobristTable::new()): all 837 non-zero and pairwise distinct?  The
            // search theorems assume no collision among visited positions; keys that coincide by construction break that at once
            "s.keysgood" => {
                let (pk, w, ck, ek) = self.searcher.verif_zobrist().verif_keys();
                let mut v: Vec<u64> = Vec::with_capacity(837);
                for c in 0..2 { for p in 0..6 { for sq in 0..64 { v.push(pk[c][p][sq]); } } }
                v.push(w);
                for c in 0..2 { for sd in 0..2 { v.push(ck[c][sd]); } }
                for sq in 0..64 { v.push(ek[sq]); }
                let zeros = v.iter().filter(|x| **x == 0).count();
                let mut sorted = v.clone(); sorted.sort(); let mut dups = 0; for i in 1..sorted.len() { if sorted[i] == sorted[i - 1] { dups += 1; } }
                if zeros == 0 && dups == 0 { "good".into() } else { format!("BAD zero_keys={} repeated_keys={}", zeros, dups) }
            }
            "s.go" if t.len() == 4 => match (parse_board(t[1]), t[2].parse::<u8>()) {
                (Some(b), Ok(d)) => {
                    let (nl, pl, timed) = if t[3] == "none" { (None, None, false) }
                        else if let Some(n) = t[3].strip_prefix("nodes:") { (n.parse::<u64>().ok(), None, true) }
                        else if let Some(n) = t[3].strip_prefix("polls:") { (None, n.parse::<u64>().ok(), true) }
                        else { return "bad-op".into() };
                    self.searcher.verif_set_node_limit(nl);
                    self.searcher.verif_set_poll_limit(pl);
                    self.searcher.verif_deeper_hits.set(0);
                    self.searcher.verif_same_depth_hits.set(0);
                    let (score, mv) = self.searcher.find_best_move(&b, d, if timed { Some(std::time::Duration::from_secs(86400)) } else { None });
                    let tm = self.searcher.verif_timer();
                    let (nodes, polls, after) = (tm.nodes(), tm.verif_polls.get(), tm.verif_nodes_after_stop);
                    let r = format!("{} {} nodes={} polls={} deeper={} same={} afterstop={} rep={} tt={}", score, opt_mv_text(&mv), nodes, polls,
                        self.searcher.verif_deeper_hits.get(), self.searcher.verif_same_depth_hits.get(), after, self.searcher.verif_repetition_len(),
                        tt_digest(&self.searcher.verif_tt_entries()));
                    self.searcher.verif_set_node_limit(None);
                    self.searcher.verif_set_poll_limit(None);
                    r
                }
                _ => "bad-op".into(),
            },
            // s.value <board> <depth> <move the implementation answered>: a FRESH searcher with the current keys
            "s.value" if t.len() == 4 => match (parse_board(t[1]), t[2].parse::<u8>()) {
                (Some(b), Ok(d)) => {
                    let (score, mv, deeper) = self.fresh_search(&b, d);
                    let claimed = t[3];
                    format!("{} {} deeper={}", clamp_class(score), if opt_mv_text(&mv) == claimed { "same-move".to_string() } else { format!("other-move:{}", opt_mv_text(&mv)) }, deeper)
                }
                _ => "bad-op".into(),
            },
            // s.judge <board> value <depth> <score> <mv> | legal <mv> | mate1 <mv> | safe <mv> : the SPEC column judges an
            // answer the implementation gave earlier (the answer is embedded in the operation)
            "s.judge" if t.len() >= 4 => "ok".into(),
            "s.afterstop" => format!("{}", self.searcher.verif_timer().verif_nodes_after_stop),
            "s.ttdepth" if t.len() == 2 => match parse_board(t[1]) {
                Some(b) => {
                    let h = self.searcher.verif_hash(&b);
                    match self.searcher.verif_tt().retrieve(h) { Some(e) => e.depth.to_string(), None => "none".into() }
                }
                None => "bad-op".into(),
            },
            // s.fresh <board> <depth>: completed search on a FRESH searcher with the current keys
            "s.fresh" if t.len() == 3 => match (parse_board(t[1]), t[2].parse::<u8>()) {
                (Some(b), Ok(d)) => { let (score, mv, deeper, nodes) = self.fresh_search_nodes(&b, d); format!("{} {} deeper={} nodes={}", score, opt_mv_text(&mv), deeper, nodes) }
                _ => "bad-op".into(),
            },
            "s.qval" if t.len() == 2 => match parse_board(t[1]) {
                Some(b) => {
                    let (pk, w, ck, ek) = self.searcher.verif_zobrist().verif_keys();
                    let mut s = crate::search::Searcher::new();
                    s.verif_set_zobrist(ZobristTable::verif_from_keys(pk, w, ck, ek));
                    s.verif_quiescence(&b, -32767, 32767).to_string()
                }
                None => "bad-op".into(),
            },
            "s.ttclaim" if t.len() == 2 => match parse_board(t[1]) {
                Some(b) => {
                    let h = self.searcher.verif_hash(&b);
                    match self.searcher.verif_tt().retrieve(h) {
                        Some(e) => format!("{} {} {} {}", e.eval, opt_mv_text(&e.best_move), e.depth, bounds_name(e.bounds)),
                        None => "none".into(),
                    }
                }
                None => "bad-op".into(),
            },
            "s.order" if t.len() == 4 => match (parse_board(t[1]), parse_opt_mv(t[2]), t[3].parse::<u8>()) {
                (Some(b), Some(ttm), Ok(ply)) => {
                    let ms = self.mg.generate_moves(&b);
                    let mut o = ms.clone();
                    self.searcher.verif_order_moves(&b, &mut o, ttm, ply);
                    let mut c = ms.clone();
                    self.searcher.verif_order_captures(&mut c, &b);
                    format!("{} / {}", o.iter().map(mv_text).collect::<Vec<_>>().join(" "), c.iter().map(mv_text).collect::<Vec<_>>().join(" "))
                }
                _ => "bad-op".into(),
            },
            // ------------------------------------------------------------ engine in-process
            "eng.new" if t.len() == 838 => match keys_from_tokens(&t[1..]) {
                Some(z) => { self.uci = Flounder::new(); self.uci.verif_searcher().verif_set_zobrist(z); "ok".into() }
                None => "bad-op".into(),
            },
            // eng.pos <start board> <mv>* | <position command line>
            "eng.pos" if t.len() >= 4 => {
                let bar = match t.iter().position(|x| *x == "|") { Some(i) => i, None => return "bad-op".into() };
                let cmd = t[bar + 1..].join(" ");
                self.uci.verif_handle_command(&cmd);
                let b = *self.uci.verif_board();
                let n = self.uci.verif_searcher().verif_repetition_len();
                let x = self.uci.verif_searcher().verif_repetition_xor();
                format!("running {} rep={}:{}", board_text(&b), n, x)
            }
            // a depth-limited search on the engine's OWN searcher and current board (game history as recorded by the position command)
            "eng.go" if t.len() == 2 => match t[1].parse::<u8>() {
                Ok(d) => {
                    let b = *self.uci.verif_board();
                    let s = self.uci.verif_searcher();
                    let (score, mv) = s.find_best_move(&b, d, None);
                    format!("{} {} nodes={} rep={}", score, opt_mv_text(&mv), s.verif_timer().nodes(), s.verif_repetition_len())
                }
                _ => "bad-op".into(),
            },
            // eng.golim <depth> <nodes:N|polls:N>: a search on the engine's OWN searcher (game history in place) cut off by a deadline
            "eng.golim" if t.len() == 3 => match t[1].parse::<u8>() {
                Ok(d) => {
                    let (nl, pl) = if let Some(n) = t[2].strip_prefix("nodes:") { (n.parse::<u64>().ok(), None) }
                        else if let Some(n) = t[2].strip_prefix("polls:") { (None, n.parse::<u64>().ok()) } else { return "bad-op".into() };
                    let b = *self.uci.verif_board();
                    let s = self.uci.verif_searcher();
                    s.verif_set_node_limit(nl);
                    s.verif_set_poll_limit(pl);
                    let (score, mv) = s.find_best_move(&b, d, Some(std::time::Duration::from_secs(86400)));
                    let r = format!("{} {} nodes={} rep={}:{}", score, opt_mv_text(&mv), s.verif_timer().nodes(), s.verif_repetition_len(), s.verif_repetition_xor());
                    s.verif_set_node_limit(None);
                    s.verif_set_poll_limit(None);
                    r
                }
                _ => "bad-op".into(),
            },
            "eng.rep" if t.len() == 1 => { let s = self.uci.verif_searcher(); format!("{}:{}", s.verif_repetition_len(), s.verif_repetition_xor()) }
            "eng.repsame" if t.len() == 3 => "ok".into(),
            "eng.judge1" if t.len() == 2 => "ok".into(),
            "eng.judged" if t.len() == 4 => "ok".into(),
            "eng.deeper" if t.len() == 1 => self.uci.verif_searcher().verif_deeper_hits.get().to_string(),
            "eng.judgelegal" if t.len() == 2 => "ok".into(),
            // eng.keys <837 keys>: the keys the engine's current searcher actually uses (after ucinewgame), for the model
            "eng.keys" if t.len() == 838 => "ok".into(),
            "eng.isdraw" if t.len() == 2 => match parse_board(t[1]) {
                Some(b) => self.uci.verif_searcher().verif_is_repetition_draw(&b).to_string(),
                None => "bad-op".into(),
            },
            // ------------------------------------------------------------ C12
            // go.params <w|b> <go tokens...> : the parameters the REAL parser hands to the search
            "go.params" if t.len() >= 2 => {
                let side = if t[1] == "w" { "w" } else { "b" };
                self.uci.verif_handle_command(&format!("position fen 4k3/8/8/8/8/8/8/4K3 {} - - 0 1", side));
                match self.uci.verif_go_budget(&t[2..].join(" ")) {
                    Some((d, Some(tl))) => format!("{} {}", d, tl.as_millis()),
                    Some((d, None)) => format!("{} none", d),
                    None => "no-go".into(),
                }
            }
            // go.pair <w|b> <go tokens A> | <go tokens B> : two well-formed clock commands that differ only in the
            // OPPONENT's values.  Answer: are the two budgets the same; does each fit the mover's own remaining time
            // (<= it, and < it when it is positive)
            "go.pair" if t.len() >= 2 => {
                let side = if t[1] == "w" { "w" } else { "b" };
                self.uci.verif_handle_command(&format!("position fen 4k3/8/8/8/8/8/8/4K3 {} - - 0 1", side));
                let own = if side == "w" { "wtime" } else { "btime" };
                let rest = t[2..].join(" ");
                let halves: Vec<&str> = rest.split(" | ").collect();
                if halves.len() != 2 { return "bad-op".into(); }
                let mut res: Vec<(Option<u128>, bool)> = Vec::new();
                for h in &halves {
                    let toks: Vec<&str> = h.split_whitespace().collect();
                    let mut own_time: u64 = 0;
                    let mut i = 1;
                    while i + 1 < toks.len() { if toks[i] == own { own_time = toks[i + 1].parse().unwrap_or(0); } i += 2; }
                    match self.uci.verif_go_budget(h) {
                        Some((_, Some(tl))) => { let ms = tl.as_millis(); res.push((Some(ms), ms <= own_time as u128 && (own_time == 0 || ms < own_time as u128))); }
                        Some((_, None)) => res.push((None, !toks.contains(&own))),
                        None => return "no-go".into(),
                    }
                }
                let word = |r: &(Option<u128>, bool)| if r.1 { "fits" } else if r.0.is_none() { "unlimited" } else { "exceeds" };
                format!("{} {} {}", if res[0].0 == res[1].0 { "same" } else { "differ" }, word(&res[0]), word(&res[1]))
            }
            _ => "bad-op".into(),
        }
    }
}
